// Run:  cp FINDINGS/finding1.rs tests/ && cargo test --offline --test finding1
// Shows: all three tests FAIL on the unmodified checkout with
//   "called `Option::unwrap()` on a `None` value"  (src/map.rs:2900 / src/map.rs:2933):
// the occupied handle returned by `Entry::insert` cannot execute `replace_key` / `replace_entry`
// - it panics instead of acting on the element it designates (the element itself is left intact).
use griddle::hash_map::Entry;
use griddle::HashMap;

/// Key with an identity that `Eq`/`Hash` ignore, so that a key replacement is observable.
#[derive(Debug, Clone)]
struct Key {
    id: u32,
    tag: &'static str,
}
impl PartialEq for Key {
    fn eq(&self, o: &Key) -> bool {
        self.id == o.id
    }
}
impl Eq for Key {}
impl std::hash::Hash for Key {
    fn hash<H: std::hash::Hasher>(&self, h: &mut H) {
        self.id.hash(h)
    }
}

fn key(id: u32, tag: &'static str) -> Key {
    Key { id, tag }
}

/// depth-2 chain on an absent key: entry(k).insert(v).replace_key()
#[test]
fn insert_then_replace_key_on_absent_key() {
    let mut map: HashMap<Key, u32> = HashMap::new();
    let occupied = map.entry(key(1, "mine")).insert(10);
    assert_eq!(occupied.key().tag, "mine");
    assert_eq!(*occupied.get(), 10);
    // The key stored in the map is the one the entry was created with, so this should hand
    // back a key equal to it (or at the very least not panic).
    let old = occupied.replace_key();
    assert_eq!(old.id, 1);
    assert_eq!(map.len(), 1);
}

/// The same chain on a key that IS present (here: still in the old table of a running resize).
/// `Entry::insert` on an occupied entry returns the very handle `entry()` built, key included,
/// so replace_entry works - the outcome of the chain depends on whether the key was present.
/// The vacant case of the same chain, with a growth-triggering insert, is the failing one.
#[test]
fn insert_then_replace_entry_while_resizing() {
    let mut map: HashMap<Key, u32> = HashMap::new();
    for i in 0..14 {
        map.insert(key(i, "orig"), i);
    }
    // present key: fine
    let (k, v) = map.entry(key(3, "second")).insert(33).replace_entry(34);
    assert_eq!((k.tag, v), ("orig", 33));
    assert_eq!(map.get_key_value(&key(3, "")).map(|(k, v)| (k.tag, *v)), Some(("second", 34)));

    // absent key, the insert starts a resize (the 15th element does not fit into 14 slots)
    assert_eq!(map.capacity(), 14);
    let occupied = map.entry(key(100, "new")).insert(1);
    assert_eq!(occupied.key().tag, "new");
    let (k, v) = occupied.replace_entry(2); // panics
    assert_eq!((k.id, v), (100, 1));
    assert_eq!(map[&key(100, "")], 2);
}

/// depth-3 chain from the property text: replace_entry_with(None), insert through the returned
/// vacant handle (via Entry::insert), then replace_key on the occupied handle that comes back.
#[test]
fn replace_entry_with_none_then_insert_then_replace_key() {
    let mut map: HashMap<Key, u32> = HashMap::new();
    map.insert(key(7, "orig"), 70);
    let occupied = match map.entry(key(7, "lookup")) {
        Entry::Occupied(o) => o,
        Entry::Vacant(_) => unreachable!(),
    };
    let entry = occupied.replace_entry_with(|_, _| None);
    assert!(matches!(entry, Entry::Vacant(_)));
    let occupied = entry.insert(71);
    assert_eq!(*occupied.get(), 71);
    let old = occupied.replace_key(); // panics
    assert_eq!(old.id, 7);
    assert_eq!(map.len(), 1);
}
