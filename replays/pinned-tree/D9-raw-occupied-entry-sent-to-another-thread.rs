// Run (native, fails on the assertion at the end because non-atomic reference-count updates get lost):
//     cargo test --offline --release --test finding1
// Run (Miri, reports "Undefined Behavior: Data race detected"):
//     cargo +nightly miri test --offline --test finding1
//
// Shows: `griddle::hash_map::RawOccupiedEntryMut<'_, K, V, S>` is `Send` for *every* `S`
// (src/map.rs:1575), although it carries a `&S`.  With a hash builder that is neither `Send`
// nor `Sync` (it owns an `Rc`), 100% safe code moves the entry - and with it the `&S` - to a
// second thread and uses the hash builder there while the first thread uses another clone of
// the same `Rc`: a data race on the `Rc`'s non-atomic counter (undefined behaviour; in
// general a use-after-free / double free of the `Rc` allocation).
// The identical program is rejected by the compiler when `griddle` is replaced by
// `hashbrown` 0.14.5 (whose impl demands `S: Send`), and also when `RawOccupiedEntryMut`
// is replaced by griddle's own `OccupiedEntry` (whose impl demands `S: Send`, src/map.rs:2159).

use griddle::hash_map::{HashMap, RawEntryMut};
use std::collections::hash_map::DefaultHasher;
use std::hash::BuildHasher;
use std::rc::Rc;

#[cfg(miri)]
const SPINS: usize = 50;
#[cfg(not(miri))]
const SPINS: usize = 20_000_000;

/// A hash builder that owns an `Rc`, hence `!Send` and `!Sync`.  Every `build_hasher` call
/// touches the `Rc`'s (non-atomic) strong count - perfectly fine in single-threaded code,
/// and the compiler is supposed to guarantee that it only ever runs on one thread.
struct RcState(Rc<u64>);

impl BuildHasher for RcState {
    type Hasher = DefaultHasher;
    fn build_hasher(&self) -> DefaultHasher {
        for _ in 0..SPINS {
            let c = std::hint::black_box(Rc::clone(&self.0)); // strong += 1 (non-atomic)
            drop(c); // strong -= 1 (non-atomic)
        }
        DefaultHasher::new()
    }
}

#[test]
fn raw_occupied_entry_mut_smuggles_a_non_sync_hasher_to_another_thread() {
    let rc = Rc::new(7u64);
    let mut map: HashMap<u32, u32, RcState> = HashMap::with_hasher(RcState(Rc::clone(&rc)));
    // Make the map split (old table + main table), to show that this is phase-independent:
    // 28 elements fill the first table, the 29th starts an incremental resize.
    for i in 0..29 {
        map.insert(i, i);
    }

    let entry = match map.raw_entry_mut().from_key(&3) {
        RawEntryMut::Occupied(e) => e,
        RawEntryMut::Vacant(_) => unreachable!(),
    };

    std::thread::scope(|s| {
        // `entry` holds `&RcState`; this `spawn` must not compile (`RcState: !Sync`), but does.
        s.spawn(move || {
            // Empty the entry, which hands back a vacant entry for the same `&S` ...
            match entry.replace_entry_with(|_k, _v| None) {
                // ... and insert through it: `build_hasher` runs on *this* thread.
                RawEntryMut::Vacant(v) => {
                    v.insert(3, 33);
                }
                RawEntryMut::Occupied(_) => unreachable!(),
            }
        });
        // Meanwhile the owner of the other `Rc` handle keeps using it on the first thread.
        for _ in 0..SPINS {
            let c = std::hint::black_box(Rc::clone(&rc));
            drop(c);
        }
    });

    assert_eq!(map.get(&3), Some(&33));
    // Exactly two handles exist: `rc` and the one inside the map's hash builder.
    assert_eq!(
        Rc::strong_count(&rc),
        2,
        "non-atomic reference count corrupted by a data race reached through safe code"
    );
}
