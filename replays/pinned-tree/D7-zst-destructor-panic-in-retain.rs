// NOT a mutant demo: an incidental observation on the UNMODIFIED code, found while
// looking for mutation sites. Copy to tests/zz_probe.rs and run:
//   cargo test --offline --test zz_probe
// It FAILS on the unmodified checkout: `RawTable::erase` (used only by `retain`) calls
// `lo.refresh_if_zst()` after `lo.table.erase(..)` without an unwind guard (unlike
// `replace_bucket_with`, which got `RefreshIfZstOnDrop`). If the element is zero-sized, lives
// in the old table and its destructor panics, the cached old-table iterator still counts
// it; the next insert's `carry` then removes a non-existent bucket
// (hashbrown debug assertion `self.is_bucket_full(index)`).
use griddle::HashSet;
use std::cell::Cell;
use std::panic::{catch_unwind, AssertUnwindSafe};
thread_local! { static ARMED: Cell<bool> = Cell::new(false); }
#[derive(PartialEq, Eq, Hash, Debug)]
struct Z;
impl Drop for Z {
    fn drop(&mut self) {
        if ARMED.with(|a| a.replace(false)) {
            panic!("boom")
        }
    }
}
#[test]
fn probe() {
    let mut s: HashSet<Z> = HashSet::new();
    s.insert(Z);
    s.reserve(100); // the element is now in the old table
    ARMED.with(|a| a.set(true));
    let r = catch_unwind(AssertUnwindSafe(|| s.retain(|_| false)));
    assert!(r.is_err());
    assert_eq!(s.len(), 0);
    s.insert(Z); // panics inside hashbrown on the unmodified code
    assert_eq!(s.len(), 1);
    assert_eq!(s.iter().count(), 1);
}
