// NOT a mutant demo - a side finding on the UNMODIFIED code (see notes2.md, last section).
// Goes to: tests/baseline_clone_from.rs
// Run with: cargo test --offline --test baseline_clone_from
//
// `clone_from` interrupted by a panicking `Clone` (at the k-th element): the destination may
// hold unspecified contents, but must be self-consistent and later operations must behave
// normally. On the unmodified worktree this FAILS (first at: destination of 4 keys, source of
// 3 keys, 3rd clone panics -> the 7th later insert trips hashbrown's
// `assertion failed: index < self.buckets()` inside `insert_no_grow`).

use griddle::HashMap;
use std::cell::Cell;
use std::collections::hash_map::DefaultHasher;
use std::hash::BuildHasherDefault;
use std::panic::{catch_unwind, AssertUnwindSafe};

thread_local! {
    static CLONES: Cell<usize> = Cell::new(0);
    static PANIC_AT: Cell<usize> = Cell::new(0); // 0 = never
}

#[derive(PartialEq, Eq, Hash, Debug, PartialOrd, Ord)]
struct Key(u32);

impl Clone for Key {
    fn clone(&self) -> Self {
        let n = CLONES.with(|c| {
            c.set(c.get() + 1);
            c.get()
        });
        if PANIC_AT.with(|p| p.get()) == n {
            panic!("injected Clone panic");
        }
        Key(self.0)
    }
}

type Map = HashMap<Key, u32, BuildHasherDefault<DefaultHasher>>;

fn arm(at: usize) {
    CLONES.with(|c| c.set(0));
    PANIC_AT.with(|p| p.set(at));
}

fn check_consistent(map: &Map, what: &str) {
    let mut keys: Vec<u32> = map.iter().map(|(k, _)| k.0).collect();
    assert_eq!(keys.len(), map.len(), "{}: len() != number of iterated entries", what);
    for k in &keys {
        assert_eq!(map.get(&Key(*k)), Some(&(k * 10)), "{}: iterated key {} not found by get", what, k);
    }
    keys.sort();
    keys.dedup();
    assert_eq!(keys.len(), map.len(), "{}: duplicate keys iterated", what);
}

#[test]
fn interrupted_clone_from_leaves_a_usable_destination() {
    // keep the output readable: silence only the injected panics
    let default_hook = std::panic::take_hook();
    std::panic::set_hook(Box::new(move |info| {
        let injected = info.payload().downcast_ref::<&str>().map_or(false, |s| s.starts_with("injected"));
        if !injected {
            default_hook(info);
        }
    }));

    let mut injected = 0;
    for n in 0..100u32 {
        // destination: n keys inserted one by one (so for many n it is mid-resize)
        for m in [1u32, 2, 3, 5, 9] {
            for k in 1..=m as usize {
                arm(0);
                let mut dst = Map::default();
                for i in 0..n {
                    dst.insert(Key(i), i * 10);
                }
                let mut src = Map::default();
                for i in 0..m {
                    src.insert(Key(5000 + i), (5000 + i) * 10);
                }
                arm(k);
                let r = catch_unwind(AssertUnwindSafe(|| dst.clone_from(&src)));
                arm(0);
                assert!(r.is_err(), "n={} m={} k={}: injection did not fire", n, m, k);
                injected += 1;

                let what = format!("dst={} src={} clone#{}", n, m, k);
                check_consistent(&dst, &format!("{} after panic", what));

                // Later operations behave normally.
                let before = dst.len();
                for i in 9000..9040u32 {
                    let r = catch_unwind(AssertUnwindSafe(|| dst.insert(Key(i), i * 10)));
                    match r {
                        Ok(old) => assert_eq!(old, None, "{}: fresh key {} reported as present", what, i),
                        Err(_) => panic!("{}: a later, ordinary insert({}) panicked", what, i),
                    }
                }
                check_consistent(&dst, &format!("{} at end", what));
                assert_eq!(dst.len(), before + 40, "{}: len after 40 fresh inserts", what);
            }
        }
    }
    assert!(injected > 100);
}
