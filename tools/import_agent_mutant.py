#!/usr/bin/env python3
"""Import a sub-agent made change: confirm it independently in the agent's scratch worktree
(patch applies; upstream suite passes with it; demonstration fails with it and passes without),
then store it as seeded/agent-<prop>-<n>/ (patch.diff, demo, notes, meta.json).

  tools/import_agent_mutant.py C03 1 [--breaks C03]
"""
import json, os, shutil, subprocess, sys

ROOT = os.path.dirname(os.path.dirname(os.path.abspath(__file__)))


def sh(cmd, cwd=None, timeout=1800):
    try:
        return subprocess.run(cmd, shell=True, cwd=cwd, stdout=subprocess.PIPE, stderr=subprocess.STDOUT, text=True, timeout=timeout)
    except subprocess.TimeoutExpired as e:
        class R: pass
        r = R(); r.returncode = 124; r.stdout = (e.stdout or "") + "\nTIMEOUT"
        return r


def main():
    prop, n = sys.argv[1], sys.argv[2]
    breaks = prop
    if "--breaks" in sys.argv:
        breaks = sys.argv[sys.argv.index("--breaks") + 1]
    base = "/tmp/mut"
    prefix = "agent"
    if "--dir" in sys.argv:
        base = sys.argv[sys.argv.index("--dir") + 1]
    if "--prefix" in sys.argv:
        prefix = sys.argv[sys.argv.index("--prefix") + 1]
    wt = f"{base}/{prop}"
    md = os.path.join(wt, "MUTANTS")
    patch = os.path.join(md, f"mutant{n}.diff")
    demo = os.path.join(md, f"demo{n}.rs")
    notes = os.path.join(md, f"notes{n}.md")
    for f in (patch, demo, notes):
        if not os.path.exists(f):
            print("missing", f)
            return 2
    log = {}
    sh("git checkout -- . && rm -f tests/mutant_demo_*.rs examples/mutant_demo_*.rs", cwd=wt)
    # the demonstration: an integration test unless it has a main()
    text = open(demo).read()
    is_example = "fn main()" in text and "#[test]" not in text
    dest = os.path.join(wt, "examples" if is_example else "tests", f"mutant_demo_{n}.rs")
    os.makedirs(os.path.dirname(dest), exist_ok=True)
    feats = "verif-hooks,rayon,serde"
    run_demo = (f"cargo run --offline --features {feats} --example mutant_demo_{n}" if is_example else f"cargo test --offline --features {feats} --test mutant_demo_{n}")
    if "--release" in text.split("\n\n")[0] or "--release" in open(notes).read():
        run_demo_rel = run_demo.replace("cargo test", "cargo test --release").replace("cargo run", "cargo run --release")
    else:
        run_demo_rel = None
    # 1. without the mutant the demonstration passes
    shutil.copy(demo, dest)
    r = sh("timeout 600 " + run_demo, cwd=wt)
    log["demo_without_mutant_rc"] = r.returncode
    clean_ok = r.returncode == 0
    if not clean_ok and run_demo_rel:
        r = sh("timeout 600 " + run_demo_rel, cwd=wt)
        clean_ok = r.returncode == 0
        if clean_ok:
            run_demo = run_demo_rel
    os.remove(dest)
    # 2. the patch applies and the upstream suite passes with it
    a = sh(f"git apply {patch}", cwd=wt)
    log["applies"] = a.returncode == 0
    t = sh("cargo test --workspace --no-fail-fast --offline 2>&1 | grep -E '^test result|FAILED' ", cwd=wt)
    tests_ok = "FAILED" not in t.stdout and "test result: ok" in t.stdout
    log["upstream_tests_pass_with_mutant"] = tests_ok
    # 3. with the mutant the demonstration fails
    shutil.copy(demo, dest)
    r2 = sh("timeout 600 " + run_demo, cwd=wt)
    log["demo_with_mutant_rc"] = r2.returncode
    demo_fails = r2.returncode != 0
    if not demo_fails and run_demo_rel and run_demo != run_demo_rel:
        r2 = sh("timeout 600 " + run_demo_rel, cwd=wt)
        demo_fails = r2.returncode != 0
    os.remove(dest)
    sh("git checkout -- .", cwd=wt)
    ok = log["applies"] and tests_ok and clean_ok and demo_fails
    print(f"{prop}-{n}: applies={log['applies']} upstream_tests_pass={tests_ok} demo_passes_clean={clean_ok} demo_fails_mutated={demo_fails} => {'CONFIRMED' if ok else 'REJECTED'}")
    if not ok:
        print(t.stdout[-800:])
        print(r.stdout[-600:] if not clean_ok else r2.stdout[-600:])
        return 1
    mid = f"{prefix}-{prop}-{n}"
    d = os.path.join(ROOT, "seeded", mid)
    os.makedirs(d, exist_ok=True)
    shutil.copy(patch, os.path.join(d, "patch.diff"))
    shutil.copy(demo, os.path.join(d, os.path.basename(dest)))
    shutil.copy(notes, os.path.join(d, "notes.md"))
    first = ""
    for line in open(notes):
        if line.strip():
            first = line.strip().lstrip("# ").strip()[:400]
            break
    meta = {"id": mid, "breaks": breaks, "summary": first, "needs": "see notes.md", "origin": f"sub-agent given only the text of {prop} and a scratch worktree",
            "confirmed": {"how": "tools/import_agent_mutant.py in the scratch worktree: git apply; cargo test --workspace --offline (passes); demonstration run with and without the change", "demo_cmd": run_demo, **log},
            "run_checks": [breaks]}
    json.dump(meta, open(os.path.join(d, "meta.json"), "w"), indent=1)
    print("stored", d)
    return 0


if __name__ == "__main__":
    sys.exit(main())
