#!/usr/bin/env python3
"""Run the registered checks against a seeded property-breaking change.

  tools/seeded.py run <id> [--checks C01,C05] [--scale 0.5] [--no-tests]
  tools/seeded.py all [--scale 0.5]

Applies seeded/<id>/patch.diff to /repo (git apply), optionally confirms that the upstream test
suite still passes, runs the checks, records which ones raise a VIOLATION, and ALWAYS restores
/repo (git checkout -- .). Results go to seeded/<id>/result.json and are summarised in
SENSITIVITY.md by `tools/seeded.py report`.
"""
import json, os, subprocess, sys, time

ROOT = os.path.dirname(os.path.dirname(os.path.abspath(__file__)))
SEEDED = os.path.join(ROOT, "seeded")
ALL = [f"C{i:02d}" for i in range(1, 18)]


def sh(cmd, **kw):
    return subprocess.run(cmd, shell=isinstance(cmd, str), stdout=subprocess.PIPE, stderr=subprocess.STDOUT, text=True, **kw)


def repo_clean():
    r = sh("git -C /repo status --porcelain --untracked-files=no")
    return r.stdout.strip() == ""


def run_one(mid, checks, scale, tests=True):
    d = os.path.join(SEEDED, mid)
    patch = os.path.join(d, "patch.diff")
    meta = json.load(open(os.path.join(d, "meta.json")))
    if not repo_clean():
        print("refusing: /repo has uncommitted changes")
        return 2
    res = {"id": mid, "breaks": meta.get("breaks"), "scale": scale, "checks": {}, "when": time.strftime("%Y-%m-%d %H:%M:%S")}
    try:
        a = sh(f"git -C /repo apply {patch}")
        if a.returncode != 0:
            print(a.stdout)
            res["error"] = "patch does not apply"
            return 2
        if tests:
            t0 = time.time()
            t = sh("cd /repo && cargo test --workspace --no-fail-fast --offline 2>&1 | grep -E '^test result|FAILED|panicked' | head -20")
            ok = "FAILED" not in t.stdout and "failed" not in t.stdout.replace("0 failed", "") and "test result: ok" in t.stdout
            res["upstream_tests_pass"] = ok
            res["upstream_tests_s"] = round(time.time() - t0, 1)
            if not ok:
                print(f"{mid}: upstream test suite FAILS with this change:\n{t.stdout}")
        for c in checks:
            t0 = time.time()
            env = dict(os.environ, VERIF_SCALE=str(scale))
            r = sh([os.path.join(ROOT, "check"), c, "--tier", "quick"], env=env, cwd=ROOT)
            viol = [l for l in r.stdout.splitlines() if l.startswith("VIOLATION")]
            detail = [l for l in r.stdout.splitlines() if "violated in" in l or "first difference" in l or "violated in scenario" in l]
            res["checks"][c] = {"rc": r.returncode, "violation": bool(viol), "wall_s": round(time.time() - t0, 1), "detail": (detail[0][:400] if detail else "")}
            print(f"{mid}: {c}: rc={r.returncode} {'VIOLATION' if viol else 'quiet'} {res['checks'][c]['wall_s']}s {detail[0][:200] if detail else ''}", flush=True)
            # replay files written for the mutant are not findings on the real tree
            for l in viol:
                p = l.split("replay=")[-1].strip()
                if os.path.exists(p) and "/replays/" in p and "pinned-tree" not in p:
                    keep = os.path.join(d, "replay-" + c + ".json")
                    if not os.path.exists(keep):
                        os.replace(p, keep)
                    else:
                        os.remove(p)
    finally:
        sh("git -C /repo checkout -- .")
        # evidence files were rewritten by runs against the mutant: they must not be committed
        sh(f"git -C {ROOT} checkout -- evidence")
    json.dump(res, open(os.path.join(d, "result.json"), "w"), indent=1)
    return 0


def replay_all(only=None):
    """For every seeded change with recorded replay files (or those whose id starts with one of
    `only`): apply it, replay each file in a fresh process, record whether the violation
    reproduces; restore /repo."""
    summary = {}
    for mid in sorted(os.listdir(SEEDED)):
        if only and not any(mid.startswith(o) for o in only):
            continue
        d = os.path.join(SEEDED, mid)
        files = sorted(f for f in os.listdir(d) if f.startswith("replay-") and f.endswith(".json"))
        if not files or not os.path.exists(os.path.join(d, "patch.diff")):
            continue
        if not repo_clean():
            print("refusing: /repo has uncommitted changes")
            return 2
        res = {}
        try:
            a = sh(f"git -C /repo apply {os.path.join(d, 'patch.diff')}")
            if a.returncode != 0:
                continue
            for f in files:
                prop = f[len("replay-"):-len(".json")]
                r = sh([os.path.join(ROOT, "check"), prop, "--replay", os.path.join(d, f)], cwd=ROOT)
                res[prop] = ("VIOLATION" in r.stdout, r.returncode)
                print(f"{mid}: replay {prop}: {'reproduced' if res[prop][0] else 'NOT reproduced'} rc={r.returncode}", flush=True)
        finally:
            sh("git -C /repo checkout -- .")
        summary[mid] = res
        rp = os.path.join(d, "result.json")
        if os.path.exists(rp):
            j = json.load(open(rp))
            j["replays_reproduced"] = {k: v[0] for k, v in res.items()}
            json.dump(j, open(rp, "w"), indent=1)
    bad = [(m, p) for m, r in summary.items() for p, v in r.items() if not v[0]]
    print(f"replay-all: {sum(len(r) for r in summary.values())} replay files, {len(bad)} not reproduced: {bad}")
    return 0


def report():
    rows = []
    for mid in sorted(os.listdir(SEEDED)):
        d = os.path.join(SEEDED, mid)
        if not os.path.exists(os.path.join(d, "result.json")):
            continue
        meta = json.load(open(os.path.join(d, "meta.json")))
        res = json.load(open(os.path.join(d, "result.json")))
        caught = [c for c, v in res["checks"].items() if v["violation"]]
        quiet = [c for c, v in res["checks"].items() if not v["violation"]]
        summ = meta.get("summary", "")
        if meta.get("classification"):
            summ += " **Judged " + meta["classification"] + "**"
        rows.append((mid, meta.get("breaks"), meta.get("origin", ""), summ, res.get("upstream_tests_pass"), caught, quiet))
    out = ["# Which checks catch which seeded changes", "",
           "Generated by `tools/seeded.py report` from seeded/*/result.json (each produced by applying the patch to /repo, running the quick checks, and restoring /repo).", "",
           "| change | breaks | origin | upstream tests pass | caught by | ran quiet |", "|---|---|---|---|---|---|"]
    for mid, br, org, summ, ok, caught, quiet in rows:
        out.append(f"| `{mid}`: {summ} | {br} | {org} | {ok} | {', '.join(caught) or ('none (by judgement, see DESIGN.md section 6)' if 'Judged' in summ else '**none**')} | {', '.join(quiet)} |")
    open(os.path.join(ROOT, "SENSITIVITY.md"), "w").write("\n".join(out) + "\n")
    print("\n".join(out))


def main():
    a = sys.argv[1:]
    if not a:
        print(__doc__)
        return 2
    scale = 0.5
    checks = None
    tests = True
    i = 1
    ids = []
    while i < len(a):
        if a[i] == "--scale":
            scale = float(a[i + 1]); i += 2
        elif a[i] == "--checks":
            checks = a[i + 1].split(","); i += 2
        elif a[i] == "--no-tests":
            tests = False; i += 1
        else:
            ids.append(a[i]); i += 1
    if a[0] == "report":
        report()
        return 0
    if a[0] == "replay-all":
        return replay_all(ids)
    if a[0] == "all":
        ids = sorted(x for x in os.listdir(SEEDED) if os.path.exists(os.path.join(SEEDED, x, "patch.diff")) and not os.path.exists(os.path.join(SEEDED, x, "result.json")))
    for mid in ids:
        meta = json.load(open(os.path.join(SEEDED, mid, "meta.json")))
        cs = checks or meta.get("run_checks") or [meta["breaks"]]
        run_one(mid, cs, scale, tests)
    return 0


if __name__ == "__main__":
    sys.exit(main())
