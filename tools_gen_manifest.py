#!/usr/bin/env python3
"""Regenerates MANIFEST.json from the tables below (kept as a script so the file never rots)."""
import json, subprocess

REPO_HOOK_COMMITS = ["a604701"]

CHECKS = {
 "C01": ("exploration", "3.C01", "Seeded simulation of map histories against an identity-level reference model; every return value and the full contents after every step, in the dev and release profiles, all element classes, five hasher quality modes; the only fault kind is iterators that lie in size_hint (extend). Sampling, not proof.", "deterministic simulation: seeded histories vs reference model"),
 "C02": ("exploration", "3.C02", "Per-call work read off the simulator's seams (hash computations, table allocations, elements moved) compared with the stated constants on every call of seeded histories.", "deterministic simulation: work counters on hasher/allocator seams"),
 "C03": ("exploration", "3.C03", "Bounded-liveness monitor: countdown ceil(L/R) armed when a resize starts; live table allocations compared with the hook state after every step.", "deterministic simulation: bounded-progress monitor + allocator accounting"),
 "C04": ("exploration", "3.C04", "Headroom invariant and capacity()>=len() after every step of churn/shrink/reserve histories; every run ends by filling to capacity with fresh keys (no panic, no allocation, capacity monotone, no resize left).", "deterministic simulation: invariant + end-of-run probe"),
 "C05": ("exploration", "3.C05", "Union workload under AddressSanitizer and the dev profile with canary/liveness element types and the cached-iterator agreement invariant after every step and right after every caught panic; fault kinds: panics in Hash/Eq/Clone/closures/destructors, allocation failure, sizes near usize::MAX, zero-sized elements with destructors, logic-error keys (inconsistent Hash/Eq, memory safety only); process aborts are violations; thorough adds a Miri stage. The thread-safety clause (which handle types are Send/Sync) is decided by compile probes (probes/autotraits), not by a run.", "deterministic simulation with fault injection (panicking callbacks and destructors, allocation failure, logic-error keys) under ASan / Miri + canary elements + hook invariant"),
 "C06": ("exploration", "3.C06", "Object ledger (exactly-once drop, no leak; a count for the zero-sized class with destructors) after every step and at teardown, with drain/drain_filter/into_iter cancelled (dropped or forgotten) after k steps; one run in 512 (quick) / 32 (thorough) samples a small state and enumerates every cancellation point k in 0..=len for each lazy operation.", "deterministic simulation: drop ledger with cancellation of lazy operations"),
 "C07": ("fault_enumeration", "3.C07", "For each explored (state, operation) every user callback the operation performs gets its own execution with a panic injected exactly there; state judged after catch_unwind, model adopts it, rest of the schedule checked exactly. States are sampled, crash points per (state, op) are enumerated completely (up to 64 per op).", "deterministic simulation: crash-point enumeration of user callbacks"),
 "C08": ("exploration", "3.C08", "Every iterator kind checked for exact len/size_hint at every step, fusedness, clone independence, keys/values order; drain and into_iter consumed, dropped or forgotten after k steps (sampled, and enumerated for every k in sampled small states); a third of the runs inject a panic into a user callback first and judge the iterators against what lookups find afterwards.", "deterministic simulation: iterator protocol checks with cancellation"),
 "C09": ("exploration", "3.C09", "retain/drain_filter with explicit-subset predicates (incl. exactly the old / main table), value mutation, call log, early drop and forget at sampled - and in sampled small states every - position.", "deterministic simulation: predicate call log vs reference partition"),
 "C10": ("fault_enumeration", "3.C10", "In sampled states (any resize phase) the whole boundary set of size arguments (0, 1, free-1/free/free+1, len, cap, 2 cap, 4096, values within len+2*ceil(len/8)+2 of usize::MAX, isize::MAX and isize::MAX/size_of element, and requests above the simulated allocation limit) is applied to reserve, try_reserve, try_reserve with a failing allocator and shrink_to, each followed by the fill probe and a full contents comparison; dev and release builds.", "deterministic simulation: boundary-argument and allocation-failure enumeration in sampled states"),
 "C11": ("exploration", "3.C11", "clone/clone_from between maps with different hasher state in independent resize phases, then divergent histories against separate models and a shared ledger.", "deterministic simulation: two-collection histories vs two models"),
 "C12": ("exploration", "3.C12", "Entry/RawEntryMut method chains of depth <= 4 on keys chosen by location class; every accessor against the model; references returned by inserting calls written through and read back; in sampled small states the whole chain grammar up to depth 2 (quick) / 3 (thorough) x key location class x lookup flavour is enumerated, each chain from a rebuilt copy of the state.", "deterministic simulation: handle chains vs reference model"),
 "C13": ("exploration", "3.C13", "Set histories and set algebra between three sets in independent phases against BTreeSet (fault-free configuration).", "deterministic simulation: seeded histories vs reference model"),
 "C14": ("exploration", "3.C14", "Metamorphic: three maps and three sets are brought to the same contents by different histories (permuted order, detours, capacity games, extend), capacities, resize phases and hasher states; ==, lookups of every key, every iterator and Debug must agree with the common model; then one value / one element is changed (preferably in the old table) and == must turn false.", "deterministic simulation: metamorphic histories, hasher state as the varied nondeterminism"),
 "C15": ("exploration", "3.C15", "Real rayon 1.12 plumbing, hashbrown's parallel raw iterator and griddle's rayon glue run over a simulator-owned rayon-core replacement on shuttle: seeded coins decide which half of every join is stolen (so rayon's own Splitter builds different split trees), shuttle's seeded random/PCT scheduler decides the interleaving; per-element visit counters and in-use flags, collected multisets, par_extend/from_par_iter vs sequential extend, par_eq/par_is_* vs sequential predicates. Pool sizes 1..16, any resize phase.", "deterministic simulation: simulator-owned work-stealing decisions + shuttle schedules"),
 "C16": ("exploration", "3.C16", "serde_test token streams derived from len()+iter() (exact length, each element once, iteration order), round trip through Deserialize, and deserialize_in_place into destinations in any phase from a simulator-owned stream with lying size hints and failures at the k-th element. Plain element class only.", "deterministic simulation: in-memory serde streams with lying hints and stream failures"),
 "C17": ("exploration", "3.C17", "The same seeded schedule (incl. sizes near usize::MAX, injected panics, allocation failures) executed by a debug-assertions+overflow-checks binary and an optimised binary with both off; transcripts (results, len, capacity, hook state, final contents) compared line by line; any undocumented panic or process death in either build is a violation.", "deterministic simulation: one schedule, two builds, transcript diff"),
}

PENDING = {
}

def main():
    head = subprocess.run(["git", "-C", "/repo", "log", "--format=%h", "-1"], capture_output=True, text=True).stdout.strip()
    checks = []
    for pid in sorted(CHECKS):
        level, ref, text, tech = CHECKS[pid]
        engine = "gsim-rayon" if pid == "C15" else "gsim"
        checks.append({
            "property_id": pid,
            "quick_cmd": f"./check {pid} --tier quick",
            "thorough_cmd": f"./check {pid} --tier thorough",
            "evidence_file": f"evidence/{pid}.json",
            "replay_cmd_template": f"./check {pid} --replay {{path}}",
            "engine": engine,
            "level_claimed": {"category": level, "text": text, "design_ref": ref},
            "level_note": "Trusted: rustc/std, hashbrown 0.14.5 as a dependency (exercised for real), the simulator's seams (SimHasher, SimAlloc, Tracked elements) and reference model; x86-64 only; seeded sampling - a clean batch is evidence, not proof.",
            "technique": tech,
        })
    manifest = {
        "version": 1,
        "setup_cmd": "./check build",
        "hooks": {
            "guard": "cargo feature `verif-hooks` of griddle (off by default)",
            "enable": "the simulator crates depend on griddle by path = /repo with features = [\"verif-hooks\", ...]; nothing else changes",
            "baseline_off_cmd": "cd /repo && cargo test --workspace --no-fail-fast --offline",
            "source_commits": REPO_HOOK_COMMITS,
            "add_only": True,
        },
        "engines": [
            {"name": "gsim", "path": "sim", "serves_properties": [p for p in sorted(CHECKS) if p != "C15"], "kind_free_text": "single-process deterministic simulator: seeded schedules of operations, faults (panics in user callbacks and destructors, allocation failure, cancellation of lazy operations, lying size hints, logic-error keys) and configurations executed against real griddle + hashbrown, reference model and seam counters as oracles; dev, release and ASan builds"},
        ] + ([{"name": "gsim-rayon", "path": "sim-rayon", "serves_properties": ["C15"], "kind_free_text": "real rayon 1.12 plumbing over a simulator-owned rayon-core replacement scheduled by shuttle"}] if "C15" in CHECKS else []) + [
            {"name": "autotraits-probe", "path": "probes/autotraits", "serves_properties": ["C05"], "kind_free_text": "compile probes (not simulation): the crate must compile, and must be rejected with E0277 under each of five features asserting Send/Sync for griddle's handle types with an Rc inside the hash builder or key - decides the thread-safety clause of C05 (defect D9); run by ./check C05"}],
        "checks": checks,
        "not_applicable": [{"property_id": k, "reason": v} for k, v in sorted(PENDING.items())],
        "notes": f"Driver: ./check <ID> [--tier quick|thorough] [--seed N] [--replay F]; VERIF_SEED / VERIF_TIER are honoured. /repo head when generated: {head}. Ten defects found and repaired (fix: commits in /repo) and one open known finding (F1, property C12: ./check C12 prints a KNOWN-FINDING line and exits 0) are listed in known_findings.txt, with replay files under replays/pinned-tree/.",
    }
    with open("MANIFEST.json", "w") as f:
        json.dump(manifest, f, indent=1)
        f.write("\n")

if __name__ == "__main__":
    main()
