//! C05, thread-safety clause: which of griddle's handle types are `Send` / `Sync` is decided by
//! `unsafe impl`s in griddle, i.e. by griddle's own word. A handle that carries a reference to
//! the hash builder (or to keys and values) must not be `Send`/`Sync` unless those are, or safe
//! code gets a data race (defect D9). This is a fact about types, so it is decided by the
//! compiler: the default build must compile (the positive assertions), and each `neg_*` feature
//! adds one assertion that must be rejected.

use griddle::hash_map::{HashMap, IterMut, OccupiedEntry, RawOccupiedEntryMut};
use std::hash::{BuildHasher, Hasher};
use std::rc::Rc;

/// A hash builder that is neither `Send` nor `Sync` and touches its `Rc` in `build_hasher`.
#[derive(Clone, Default)]
pub struct RcState(pub Rc<u64>);

pub struct H(u64);
impl Hasher for H {
    fn finish(&self) -> u64 {
        self.0
    }
    fn write(&mut self, bytes: &[u8]) {
        for &b in bytes {
            self.0 = self.0.rotate_left(5) ^ b as u64;
        }
    }
}
impl BuildHasher for RcState {
    type Hasher = H;
    fn build_hasher(&self) -> H {
        H(*self.0.clone())
    }
}

/// A thread-safe hash builder.
#[derive(Clone, Default)]
pub struct Plain;
impl BuildHasher for Plain {
    type Hasher = H;
    fn build_hasher(&self) -> H {
        H(7)
    }
}

fn assert_send<T: Send>() {}
fn assert_sync<T: Sync>() {}

/// Must compile: with thread-safe parameters the handles are thread-safe.
pub fn positive() {
    assert_send::<RawOccupiedEntryMut<'static, u32, u32, Plain>>();
    assert_sync::<RawOccupiedEntryMut<'static, u32, u32, Plain>>();
    assert_send::<OccupiedEntry<'static, u32, u32, Plain>>();
    assert_sync::<OccupiedEntry<'static, u32, u32, Plain>>();
    assert_send::<IterMut<'static, u32, u32>>();
    assert_send::<HashMap<u32, u32, Plain>>();
    assert_sync::<HashMap<u32, u32, Plain>>();
}

#[cfg(feature = "neg_raw_occupied_send")]
pub fn neg() {
    assert_send::<RawOccupiedEntryMut<'static, u32, u32, RcState>>();
}
#[cfg(feature = "neg_raw_occupied_sync")]
pub fn neg() {
    assert_sync::<RawOccupiedEntryMut<'static, u32, u32, RcState>>();
}
#[cfg(feature = "neg_occupied_send")]
pub fn neg() {
    assert_send::<OccupiedEntry<'static, u32, u32, RcState>>();
}
#[cfg(feature = "neg_occupied_sync")]
pub fn neg() {
    assert_sync::<OccupiedEntry<'static, u32, u32, RcState>>();
}
#[cfg(feature = "neg_iter_mut_send")]
pub fn neg() {
    assert_send::<IterMut<'static, Rc<u32>, u32>>();
}
