"""Determinism self-test: the same (property, seed, run index) must produce the same run -
operation results, hook states, fault firings, coverage - whichever process executes it, with
whatever worker count, in a fresh process, and twice in a row. Also runs gsim-rayon twice."""
import json, os, subprocess, sys, time


def hashes(ck, prop, fl, seed, count, workers, tag):
    old = ck.NWORKERS
    ck.NWORKERS = workers
    try:
        paths = []
        for w in range(workers):
            hp = os.path.join(ck.WORK, f"selftest-{prop}-{fl}-{tag}-{w}.hash")
            if os.path.exists(hp):
                os.remove(hp)
            paths.append(hp)
        ck.run_flavour(prop, fl, seed, "quick", 0, count, 600, extra=lambda w: ["--hash-out", paths[w]])
        h = {}
        for hp in paths:
            if os.path.exists(hp):
                for line in open(hp):
                    a = line.split()
                    if len(a) == 3:
                        h[int(a[0])] = a[1]
                os.remove(hp)
        return h
    finally:
        ck.NWORKERS = old


def main(ck, args):
    t0 = time.time()
    count = int(args[0]) if args else 1500
    os.makedirs(ck.WORK, exist_ok=True)
    props = [p for p in sorted(ck.PLANS) if ck.PLANS[p].get("engine") is None]
    bad = 0
    total = 0
    for prop in props + ["C17"]:
        n = count if prop not in ("C07", "C10") else max(64, count // 20)
        for fl in ("dev", "release"):
            a = hashes(ck, prop, fl, 7, n, 16, "a")
            b = hashes(ck, prop, fl, 7, n, 5, "b")
            c = hashes(ck, prop, fl, 7, n, 16, "c")
            runs = sorted(set(a) | set(b) | set(c))
            diff = [r for r in runs if not (a.get(r) == b.get(r) == c.get(r))]
            total += len(runs)
            bad += len(diff)
            ck.log(f"selftest: {prop} {fl}: {len(runs)} runs executed three times (16, 5 and 16 worker processes): {len(diff)} differing" + (f" e.g. run {diff[0]}" if diff else ""))
        if prop != "C17":
            a = hashes(ck, prop, "dev", 7, n, 16, "x")
            b = hashes(ck, prop, "release", 7, n, 16, "y")
            diff = [r for r in a if a[r] != b.get(r)]
            ck.log(f"selftest: {prop} dev vs release: {len(diff)} of {len(a)} runs differ (outcome hashes include results, states, probes)")
    # rayon: the same scenarios twice
    import rayon_driver
    b = rayon_driver.build()
    outs = []
    for tag in ("a", "b"):
        out = os.path.join(ck.WORK, f"selftest-rayon-{tag}.json")
        subprocess.run([b, "run", "--seed", "7", "--count", "600", "--iters", "6", "--out", out], check=True)
        r = json.load(open(out))
        outs.append((r["executions"], r["joins"], r["steals"], sorted(r["trees"]), sorted(r["states"])))
    same = outs[0] == outs[1]
    ck.log(f"selftest: gsim-rayon 600 scenarios x 6 schedules twice: {'identical' if same else 'DIFFERENT'} (executions, joins, steals, split trees, cases)")
    if not same:
        bad += 1
    ck.log(f"selftest: {total} run triples, {bad} nondeterministic, {time.time()-t0:.0f}s")
    print("SELFTEST " + ("OK" if bad == 0 else "FAILED"))
    return 0 if bad == 0 else 2
