"""C15 driver: gsim-rayon (real rayon plumbing over the simulator-owned rayon-core on shuttle)."""
import json, os, subprocess, sys, time

ROOT = os.path.dirname(os.path.dirname(os.path.abspath(__file__)))
SIMR = os.path.join(ROOT, "sim-rayon")
TDIR = os.path.join(ROOT, "target", "rayon")
BIN = os.path.join(TDIR, "release", "gsim-rayon")
QUICK = dict(count=24000, iters=8, cap=150)
THOROUGH = dict(count=600000, iters=16, cap=1200)
_built = False


def build():
    global _built
    if _built:
        return BIN
    env = dict(os.environ, CARGO_NET_OFFLINE="true", CARGO_TARGET_DIR=TDIR, CARGO_TERM_COLOR="never")
    t0 = time.time()
    p = subprocess.run(["cargo", "build", "--release"], cwd=SIMR, env=env, stdout=subprocess.PIPE, stderr=subprocess.STDOUT, text=True)
    if p.returncode != 0:
        sys.stderr.write(p.stdout[-6000:])
        sys.stderr.write("check: build of gsim-rayon failed (harness error)\n")
        sys.exit(2)
    sys.stderr.write(f"check: built gsim-rayon in {time.time()-t0:.1f}s\n")
    _built = True
    return BIN


def replay(ck, prop, path):
    b = build()
    p = subprocess.run([b, "replay", path], stdout=subprocess.PIPE, stderr=subprocess.PIPE, text=True, errors="replace")
    sys.stderr.write(p.stdout)
    if "REPRODUCED" in p.stdout.replace("NOT-REPRODUCED", ""):
        print(f"VIOLATION property={prop} replay={path}")
        return 1
    if p.returncode not in (0, 1):
        sys.stderr.write(p.stderr[-3000:])
        print(f"VIOLATION property={prop} replay={path}")
        return 1
    print(f"OK property={prop} replay did not reproduce a violation")
    return 0


def main(ck, prop, tier, seed, replay_path, scale):
    if replay_path:
        return replay(ck, prop, replay_path)
    t0 = time.time()
    b = build()
    plan = QUICK if tier == "quick" else THOROUGH
    count = max(ck.NWORKERS, int(plan["count"] * scale))
    os.makedirs(ck.WORK, exist_ok=True)
    procs = []
    for w in range(ck.NWORKERS):
        out = os.path.join(ck.WORK, f"{prop}-rayon-{w}.json")
        if os.path.exists(out):
            os.remove(out)
        cmd = [b, "run", "--seed", str(seed), "--from", "0", "--count", str(count), "--stride", str(ck.NWORKERS), "--offset", str(w),
               "--iters", str(plan["iters"]), "--max-secs", str(plan["cap"]), "--out", out]
        procs.append((w, out, subprocess.Popen(cmd, stdout=subprocess.PIPE, stderr=subprocess.PIPE, text=True, errors="replace")))
    results = []
    deaths = []
    for w, out, p in procs:
        try:
            so, se = p.communicate(timeout=plan["cap"] + 180)
        except subprocess.TimeoutExpired:
            p.kill()
            ck.log(f"check: rayon worker {w} exceeded the wall-clock cap (harness error)")
            return 2
        if p.returncode == 0 and os.path.exists(out):
            results.append(json.load(open(out)))
        else:
            deaths.append((w, p.returncode, se[-2000:]))
    if deaths:
        for w, rc, se in deaths:
            ck.log(f"check: rayon worker {w} died rc={rc}: {se}")
        # a dying worker is a process abort inside a traversal: report it as a violation of C15
    runs = sum(r["runs"] for r in results)
    execs = sum(r["executions"] for r in results)
    trees, states = set(), set()
    kinds, pools = {}, {}
    violations, samples = [], []
    for r in results:
        trees.update(r["trees"]); states.update(r["states"])
        ck.merge_counts(kinds, r["kinds"]); ck.merge_counts(pools, r["pools"])
        violations += r["violations"]
        if len(samples) < 2:
            samples += r["samples"][: 2 - len(samples)]
    opens = ck.load_known()
    new, known = [], []
    for v in sorted(violations, key=lambda v: v["run"]):
        k = ck.match_known(opens, prop, v)
        (known if k else new).append((v, k))
    for v, k in known[:3]:
        print(f"KNOWN-FINDING: property={prop} {k['desc']} (e.g. run {v['run']}: {v['detail'][:160]})")
    rc = 0
    replay_files = []
    if new or deaths:
        rc = 1
        os.makedirs(ck.REPLAYS, exist_ok=True)
        for v, _ in new[:2]:
            path = os.path.join(ck.REPLAYS, f"{prop}-{seed}-{v['run']}.json")
            p = subprocess.run([b, "show", "--seed", str(seed), "--run", str(v["run"]), "--detail", v["detail"].splitlines()[0][:300], "--schedule", v.get("schedule", "")], stdout=subprocess.PIPE, text=True)
            open(path, "w").write(p.stdout)
            replay_files.append(path)
            ck.log(f"check: {prop} violated in scenario {v['run']} ({v['op_kind']}): {v['detail'].splitlines()[0][:300]}")
            print(f"VIOLATION property={prop} replay={path}")
        if deaths and not new:
            path = os.path.join(ck.REPLAYS, f"{prop}-{seed}-worker-death.json")
            json.dump({"property": prop, "class": "abort", "detail": deaths[0][2], "seed": seed}, open(path, "w"))
            print(f"VIOLATION property={prop} replay={path}")
    wall = time.time() - t0
    hours = max(wall, 1e-9) / 3600
    evidence = {
        "property_id": prop, "tier": tier, "seed": seed, "level": "exploration",
        "coverage": {
            "evaluations": execs,
            "distinct_nontrivial": len(states),
            "rule": "Scenario i (operation, two collections built by seeded histories into any resize phase with independent hasher seeds, pool size 1..16, steal probability, injected flag, scheduler random or PCT depth 1..4) is a function of (VERIF_SEED, i); each scenario is executed under `iters` seeded shuttle schedules. In every execution the simulator's coins in join_context choose the split tree (rayon's real Splitter reacts to `migrated` and the pool size) and shuttle chooses the interleaving at the scheduling points inside every per-element closure. evaluations = scheduled executions; distinct_nontrivial = DISTINCT (operation, pool size, abstract state of the operands, split-tree shape) tuples, split-tree shape = hash of the (depth, stolen) decision sequence.",
            "samples": samples if samples else [{"note": "no small scenario in this batch"}],
            "scenarios": runs, "scheduled_executions": execs,
            "distinct_split_trees": len(trees),
            "joins": sum(r["joins"] for r in results), "steals": sum(r["steals"] for r in results),
            "max_join_depth": max([r["max_join_depth"] for r in results] or [0]),
            "scenarios_with_resize_in_flight": sum(r["runs_with_split_operand"] for r in results),
            "pool_sizes": dict(sorted(pools.items(), key=lambda kv: int(kv[0]))), "operations": dict(sorted(kinds.items())),
            "executions_per_hour": int(execs / hours),
            "simulated_time": "logical: scheduler decisions; no clock is read",
            "faults_injected": {"work-stealing (simulated steal of the right half of a join)": sum(r["steals"] for r in results)},
            "real_and_stub": {
                "real": ["griddle rayon glue (built from /repo's working tree)", "hashbrown 0.14.5 RawParIter and producer splitting", "rayon 1.12.0 iterator plumbing (bridge, Splitter, consumers, reducers, Vec producers)"],
                "stubbed_or_owned_by_simulator": ["rayon-core: join_context/join/current_num_threads/current_thread_index replaced by sim-rayon/rayon-core-sim, running on shuttle 0.9.3", "BuildHasher (seeded)"],
                "not_exercised": ["real rayon-core deques, sleeping, injection, thread pools"],
            },
            "replay_files": replay_files, "known_findings_matched": len(known), "truncated": any(r["truncated"] for r in results),
        },
        "assumptions": ["sampling of schedules and split trees, not enumeration", "rayon-core's real scheduler is replaced, not simulated: claims are about griddle/hashbrown/rayon plumbing under any split tree and interleaving the stand-in can produce", "x86-64"],
        "wall_s": round(wall, 2), "violations": len(new) + (1 if deaths and not new else 0),
    }
    os.makedirs(ck.EVID, exist_ok=True)
    with open(os.path.join(ck.EVID, f"{prop}.json"), "w") as f:
        json.dump(evidence, f, indent=1)
        f.write("\n")
    ck.log(f"check: {prop} {tier}: {runs} scenarios, {execs} scheduled executions, {len(trees)} split trees, {len(states)} distinct cases, {len(new)} violations, {wall:.1f}s")
    return rc
