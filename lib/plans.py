"""Per-property run plans: which build flavours execute how many runs per tier."""

# (flavour, runs, wall-clock cap in seconds for that stage)
def std(dev, rel, asan=0, cap=120):
    stages = []
    if dev:
        stages.append(("dev", dev, cap))
    if rel:
        stages.append(("release", rel, cap))
    if asan:
        stages.append(("asan", asan, cap))
    return stages


PLANS = {
    "C01": {"quick": std(60000, 200000), "thorough": std(600000, 3000000, cap=900)},
    "C02": {"quick": std(30000, 200000), "thorough": std(300000, 3000000, cap=900)},
    "C03": {"quick": std(30000, 200000), "thorough": std(300000, 3000000, cap=900)},
    "C04": {"quick": std(10000, 70000), "thorough": std(150000, 1200000, cap=900)},
    "C05": {"quick": std(30000, 0, 60000), "thorough": std(300000, 0, 1000000, cap=900) + [("miri", 96, 1500)]},
    "C06": {"quick": std(30000, 100000, 30000), "thorough": std(300000, 1500000, 300000, cap=900)},
    "C07": {"quick": std(1500, 5000, 1500), "thorough": std(15000, 80000, 15000, cap=900)},
    "C08": {"quick": std(40000, 150000), "thorough": std(400000, 2000000, cap=900)},
    "C09": {"quick": std(40000, 150000), "thorough": std(400000, 2000000, cap=900)},
    "C10": {"quick": std(250, 1200), "thorough": std(4000, 24000, cap=1200)},
    "C11": {"quick": std(30000, 120000), "thorough": std(300000, 1500000, cap=900)},
    "C12": {"quick": std(40000, 150000), "thorough": std(400000, 2000000, cap=900)},
    "C13": {"quick": std(40000, 150000), "thorough": std(400000, 2000000, cap=900)},
    "C14": {"quick": std(20000, 80000), "thorough": std(200000, 1000000, cap=900)},
    "C15": {"engine": "rayon"},
    "C16": {"quick": std(20000, 60000), "thorough": std(200000, 800000, cap=900)},
    "C17": {"engine": "twin"},
}

LEVELS = {p: "exploration" for p in PLANS}
LEVELS["C07"] = "fault_enumeration"
LEVELS["C10"] = "fault_enumeration"

_STATE = ("distinct_nontrivial counts DISTINCT (operation kind, abstract state) pairs at which the oracle was evaluated, "
          "abstract state = (resize in flight?, log2 main buckets, log2 old buckets, class of old-table length in {none,0,1,<R,R,<=2R,>2R}, "
          "class of free slots in {0,1,<=R,>R}, element class, hasher mode), read through the verif-hooks state; "
          "only runs that had a resize in flight at some step contribute (a run that never left the un-split state is trivial).")

RULES = {
    "C01": "Seeded histories over the map API (fault-free except for iterators that lie in size_hint) against an identity-level BTreeMap model; every return value, then len/is_empty/sorted iter()/get of every key after every step. " + _STATE,
    "C02": "Seeded histories; per call the simulator's work clock (hash computations counted by the hasher seam, table allocations counted by the allocator seam, elements moved read through the hook) is compared with the stated bounds. " + _STATE,
    "C03": "Seeded histories; a countdown ceil(L/R) is armed when a resize starts and the number of live table allocations is compared with the hook state after every step. " + _STATE,
    "C04": "Seeded histories biased to churn, shrink_to/reserve mid-resize and emptied old tables; capacity()>=len() and the headroom invariant after every step, and every run ends with the fill-to-capacity probe. " + _STATE,
    "C05": "Union workload (maps and sets, all element classes incl. zero-sized with destructors, cancellation of lazy operations) under ASan and the dev profile with liveness/canary element types and the cached-iterator agreement invariant after every step and right after every caught panic. Fault kinds: panics in Hash/Eq/Clone/closures/destructors (the run adopts what the collections hold and goes on), allocation failure, sizes near usize::MAX, logic-error keys (inconsistent Hash/Eq: only memory safety judged). Thorough adds a Miri stage. Plus five compile probes (probes/autotraits) for the Send/Sync declarations of the handle types. " + _STATE,
    "C06": "Tracked elements and the zero-sized class with destructors (counted in and out); panic-free histories with drain/drain_filter/into_iter dropped or forgotten after k steps; ledger of object ids (exactly-once drop, no leak) after every step and at teardown. " + _STATE,
    "C07": "For each explored (state, operation): dry run records the user callbacks performed, then one execution per callback with a panic injected at exactly that callback; distinct_nontrivial counts DISTINCT (operation kind, callback site, abstract state) triples whose crash points were enumerated.",
    "C08": "Seeded histories; iterators of every kind checked for exact len/size_hint at every step, fusedness, clone independence; drain/into_iter consumed, dropped or forgotten after k steps (every k in enumerated small states); one run in three first injects a panic into a user callback and then judges the iterators against what lookups find. " + _STATE,
    "C09": "Seeded histories; predicates are explicit key subsets (none/all/random/exactly the old table/exactly the main table) with optional value mutation; call log, yielded set and remainder compared. " + _STATE,
    "C10": "In sampled states every boundary argument of the enumerated set is applied to reserve/try_reserve (with and without simulated allocation failure)/shrink_to, each from a rebuilt copy of the state, followed by the fill probe; distinct_nontrivial counts DISTINCT (operation, argument class, abstract state) triples.",
    "C11": "Two or three maps with different hasher seeds driven into independent phases; clone/clone_from between them, then divergent histories against separate models. " + _STATE,
    "C12": "Seeded histories dominated by Entry/RawEntryMut method chains of depth <= 4 on keys chosen by location class (absent / main / old table by cursor rank); every accessor against the model; references returned by inserting calls are written through. " + _STATE,
    "C13": "Seeded histories over three sets (fault-free configuration) against BTreeSet models; algebra operations between sets in independent phases. " + _STATE,
    "C14": "Metamorphic: 2-3 collections built to the same contents by different histories, capacities, phases and hasher states; == both ways, per-key lookups, sorted iterator and Debug output; then one element changed. distinct_nontrivial counts DISTINCT tuples of abstract states of the compared collections.",
    "C16": "Collections in any phase serialised to serde_test tokens and deserialised (also in place, also with lying size hints and failing streams). " + _STATE,
}

REAL_AND_STUB = {
    "real": ["griddle (all of it, built from /repo's working tree)", "hashbrown 0.14.5 raw table", "liballoc/libstd"],
    "stubbed_or_owned_by_simulator": ["BuildHasher (seeded SimHasher)", "element types and closures (fuse, ledger, canaries)", "global allocator front (counts, simulated failure; System underneath)"],
    "not_exercised": ["ahash RandomState", "real rayon-core scheduler", "32-bit targets", "non-SSE2 group widths"],
}

ASSUMPTIONS = {
    "*": [
        "sampling, not proof: a clean batch is evidence only",
        "hashbrown 0.14.5 is trusted as a dependency; it is exercised for real",
        "x86-64, SSE2 group width 16, 64-bit usize",
        "Hash/Eq/Clone of element types are lawful (except for the injected panics, and for C05's logic-error-key runs, where Hash/Eq are deliberately inconsistent and only memory safety is judged)",
    ],
}
