"""C17: the same seeded schedules executed by the dev-profile binary (debug assertions and
overflow checks on) and the release binary (both off); per-run transcripts must be identical."""
import json, os, subprocess, sys, time, shutil

QUICK = (400000, 150)
THOROUGH = (6000000, 1200)


def transcript_hash(ck, fl, path):
    binpath = ck.build(fl)
    p = subprocess.run([binpath, "replay", path, "--hash"], stdout=subprocess.PIPE, stderr=subprocess.PIPE, text=True, env=ck.run_env(fl), errors="replace")
    if "GSIM-ABORT" in p.stdout or (p.returncode is not None and p.returncode < 0):
        return "ABORT"
    if "GSIM-HANG" in p.stdout:
        return "HANG"
    for line in p.stdout.splitlines():
        if line.startswith("HASH "):
            return line.split()[1]
    return "NOHASH"


def transcript_lines(ck, fl, path):
    binpath = ck.build(fl)
    p = subprocess.run([binpath, "replay", path, "--transcript"], stdout=subprocess.PIPE, stderr=subprocess.PIPE, text=True, env=ck.run_env(fl), errors="replace")
    return [l for l in p.stdout.splitlines() if l.startswith("  ") or l.startswith("GSIM-")]


def differs(ck, path):
    return transcript_hash(ck, "dev", path) != transcript_hash(ck, "release", path)


def minimise(ck, path, budget_s=40):
    """Delta-debug the operation list while the two builds still disagree."""
    rf = json.load(open(path))
    ops = rf["spec"]["ops"]
    faults = rf["spec"]["faults"]
    t0 = time.time()
    tmp = path + ".cand"

    def write(cand_ops, cand_faults):
        c = json.loads(json.dumps(rf))
        c["spec"]["ops"] = cand_ops
        c["spec"]["faults"] = cand_faults
        json.dump(c, open(tmp, "w"))

    def keep(idx):
        cand_ops = [ops[i] for i in idx]
        cand_faults = []
        for f in faults:
            if f["at"] in idx:
                cand_faults.append({"at": idx.index(f["at"]), "nth": f["nth"]})
        return cand_ops, cand_faults

    n = 2
    idx = list(range(len(ops)))
    while len(idx) > 1 and time.time() - t0 < budget_s:
        chunk = max(1, (len(idx) + n - 1) // n)
        reduced = False
        for start in range(0, len(idx), chunk):
            cand = idx[:start] + idx[start + chunk:]
            if not cand:
                continue
            o, f = keep(cand)
            write(o, f)
            if differs(ck, tmp):
                idx = cand
                n = max(2, n - 1)
                reduced = True
                break
        if not reduced:
            if chunk == 1:
                break
            n = min(len(idx), n * 2)
    o, f = keep(idx)
    rf["spec"]["ops"] = o
    rf["spec"]["faults"] = f
    json.dump(rf, open(path, "w"), indent=1)
    if os.path.exists(tmp):
        os.remove(tmp)


def replay(ck, prop, path):
    a = transcript_lines(ck, "dev", path)
    b = transcript_lines(ck, "release", path)
    if a == b:
        # identical transcripts: an undocumented panic in both builds is still a violation
        for fl in ("dev", "release"):
            binpath = ck.build(fl)
            p = subprocess.run([binpath, "replay", path], stdout=subprocess.PIPE, stderr=subprocess.PIPE, text=True, env=ck.run_env(fl), errors="replace")
            if "REPRODUCED" in p.stdout.replace("NOT-REPRODUCED", ""):
                ck.log(f"{fl}: " + p.stdout.strip().splitlines()[-1][:300])
                print(f"VIOLATION property={prop} replay={path}")
                return 1
        print(f"OK property={prop} both builds produce the same transcript ({len(a)} lines) and no undocumented panic")
        return 0
    for i in range(max(len(a), len(b))):
        la = a[i] if i < len(a) else "<end>"
        lb = b[i] if i < len(b) else "<end>"
        if la != lb:
            ck.log(f"first difference at transcript line {i}:\n  dev    : {la}\n  release: {lb}")
            break
    print(f"VIOLATION property={prop} replay={path}")
    return 1


def main(ck, prop, tier, seed, replay_path, scale):
    if replay_path:
        return replay(ck, prop, replay_path)
    t0 = time.time()
    count, cap = QUICK if tier == "quick" else THOROUGH
    count = max(ck.NWORKERS, int(count * scale))
    os.makedirs(ck.WORK, exist_ok=True)
    hashes = {}
    results = {}
    crashes = {}
    for fl in ("dev", "release"):
        for w in range(ck.NWORKERS):
            hp = os.path.join(ck.WORK, f"{prop}-{fl}-{w}.hash")
            if os.path.exists(hp):
                os.remove(hp)
        res, cr = ck.run_flavour(prop, fl, seed, tier, 0, count, cap, extra=lambda w, fl=fl: ["--hash-out", os.path.join(ck.WORK, f"{prop}-{fl}-{w}.hash")])
        results[fl] = res
        h = {}
        for w in range(ck.NWORKERS):
            hp = os.path.join(ck.WORK, f"{prop}-{fl}-{w}.hash")
            if os.path.exists(hp):
                for line in open(hp):
                    parts = line.split()
                    if len(parts) == 3:
                        h[int(parts[0])] = (parts[1], int(parts[2]))
        for c in cr:
            h[c["run"]] = (c["cls"].upper(), 0)
        hashes[fl] = h
        crashes[fl] = cr
    common = sorted(set(hashes["dev"]) & set(hashes["release"]))
    mismatches = [r for r in common if hashes["dev"][r][0] != hashes["release"][r][0]]
    # a crash in either build is a finding by itself (no outcome may rely on a debug-only check,
    # and nothing may kill the process)
    crashed = sorted(r for fl in ("dev", "release") for r, v in hashes[fl].items() if v[0] in ("ABORT", "HANG"))
    panics = []
    for fl in ("dev", "release"):
        for r in results[fl]:
            for v in r["violations"]:
                v = dict(v); v["flavour"] = fl
                panics.append(v)

    opens = ck.load_known()
    new = []
    known = []
    for r in mismatches:
        v = {"class": "transcript-mismatch", "op_kind": "?", "detail": f"run {r}: dev {hashes['dev'][r][0]} release {hashes['release'][r][0]}", "elem": "?", "run": r, "op_index": hashes["dev"][r][1]}
        k = ck.match_known(opens, prop, v)
        (known if k else new).append((v, k))
    for v in panics:
        k = ck.match_known(opens, prop, v)
        (known if k else new).append((v, k))
    for v, k in known[:3]:
        print(f"KNOWN-FINDING: property={prop} {k['desc']} (e.g. {v['detail'][:160]})")
    rc = 0
    replay_files = []
    if new:
        rc = 1
        os.makedirs(ck.REPLAYS, exist_ok=True)
        done = 0
        for v, _ in sorted(new, key=lambda x: (x[0]["op_index"], x[0]["run"])):
            if done >= 2:
                break
            done += 1
            run = v["run"]
            path = os.path.join(ck.REPLAYS, f"{prop}-{seed}-{run}.json")
            binpath = ck.build("dev")
            p = subprocess.run([binpath, "show", "--prop", prop, "--seed", str(seed), "--run", str(run), "--tier", tier, "--class", v["class"], "--flavour", "dev+release"], stdout=subprocess.PIPE, text=True)
            open(path, "w").write(p.stdout)
            if v["class"] == "transcript-mismatch":
                minimise(ck, path)
                a = transcript_lines(ck, "dev", path)
                b = transcript_lines(ck, "release", path)
                for i in range(max(len(a), len(b))):
                    la = a[i] if i < len(a) else "<end>"
                    lb = b[i] if i < len(b) else "<end>"
                    if la != lb:
                        ck.log(f"check: {prop} run {run}: first difference at transcript line {i}:\n  dev    : {la}\n  release: {lb}")
                        break
            else:
                ck.log(f"check: {prop} run {run} ({v['flavour']}): {v['class']} at {v['op_kind']}#{v['op_index']}: {v['detail'][:300]}")
            replay_files.append(path)
            print(f"VIOLATION property={prop} replay={path}")

    dev = results["dev"]
    runs = sum(r["runs"] for r in dev)
    steps = sum(r["steps"] for r in dev)
    states = set()
    faults, probes, op_kinds = {}, {}, {}
    fuse = [0, 0, 0, 0]
    samples = []
    for r in dev:
        states.update(r["states"])
        ck.merge_counts(faults, r["faults"]); ck.merge_counts(probes, r["probes"]); ck.merge_counts(op_kinds, r["op_kinds"])
        if len(samples) < 2:
            samples += r["samples"][: 2 - len(samples)]
    wall = time.time() - t0
    hours = max(wall, 1e-9) / 3600
    evidence = {
        "property_id": prop, "tier": tier, "seed": seed, "level": "exploration",
        "coverage": {
            "evaluations": len(common),
            "distinct_nontrivial": len(states),
            "rule": "One seeded schedule (operations incl. sizes near usize::MAX/isize::MAX, panics injected at the k-th user callback, allocation failures) is generated once and executed by two binaries: dev profile (debug assertions + overflow checks on) and release (both off). Per step the transcript records result, Ok/Err class, normalised panic, len, capacity and hook state of every collection, and at the end the sorted contents; the two transcripts must be identical, and any undocumented panic or process death in either build is a violation. evaluations = schedules compared in both builds; distinct_nontrivial = DISTINCT (operation kind, abstract state) pairs reached by schedules that had a resize in flight (abstract state as in the other checks).",
            "samples": samples if samples else [{"note": "no short non-trivial run in this batch"}],
            "schedules_compared": len(common), "transcript_mismatches": len(mismatches), "process_deaths": len(crashed),
            "simulated_steps_per_build": steps, "runs_per_hour": int(2 * runs / hours),
            "simulated_time": f"{steps} logical steps per build; no clock exists in the crate",
            "faults_injected": faults, "reach_probes": dict(sorted(probes.items())), "operation_kinds": dict(sorted(op_kinds.items())),
            "builds": ["dev: opt-level 1, debug-assertions on, overflow-checks on", "release: opt-level 3, both off"],
            "real_and_stub": ck.REAL_AND_STUB, "replay_files": replay_files, "known_findings_matched": len(known),
        },
        "assumptions": ck.ASSUMPTIONS["*"] + ["the schedule is symbolic where it depends on the state (free-1, old-table rank): resolution is a deterministic function of the state, so a divergent state shows up as a differing transcript line"],
        "wall_s": round(wall, 2), "violations": len(new),
    }
    os.makedirs(ck.EVID, exist_ok=True)
    with open(os.path.join(ck.EVID, f"{prop}.json"), "w") as f:
        json.dump(evidence, f, indent=1)
        f.write("\n")
    ck.log(f"check: {prop} {tier}: {len(common)} schedules compared in two builds, {len(mismatches)} mismatches, {len(crashed)} process deaths, {len(panics)} undocumented panics, {wall:.1f}s")
    return rc
