//! gsim-rayon: C15 - rayon traversal equals sequential traversal under every schedule.
//!
//! Real code: rayon 1.12's plumbing (bridge_unindexed, Splitter, consumers, reducers, Vec
//! producers), hashbrown's RawParIter / producer splitting, griddle's rayon glue. Stub: the
//! scheduler (rayon-core-sim on shuttle): seeded coins choose the split tree, shuttle's seeded
//! scheduler chooses the interleaving of the leaves.
//!
//!   gsim-rayon run --seed S --from A --count N [--stride K --offset W] [--iters I] --out FILE
//!   gsim-rayon replay FILE

#[path = "../../sim/src/rng.rs"]
mod rng;

use griddle::{HashMap, HashSet};
use rayon::prelude::*;
use rng::{mix, splitmix64, Rng};
use serde::{Deserialize, Serialize};
use shuttle::sync::atomic::{AtomicBool, AtomicU32, Ordering};
use std::collections::{BTreeMap, BTreeSet};
use std::hash::{BuildHasher, Hasher};
use std::sync::Arc;

// ---------------------------------------------------------------- seeded hasher (S1)

#[derive(Clone, Copy, Debug, Default, PartialEq, Eq)]
pub struct SeedHasher(pub u64);
pub struct SeedHashState(u64, u64);
impl Hasher for SeedHashState {
    fn finish(&self) -> u64 {
        splitmix64(self.1 ^ self.0)
    }
    fn write(&mut self, bytes: &[u8]) {
        for &b in bytes {
            self.1 = self.1.rotate_left(8) ^ b as u64 ^ 0x100;
        }
    }
    fn write_u32(&mut self, i: u32) {
        self.1 = self.1.rotate_left(32) ^ i as u64 ^ 0x1_0000_0000;
    }
}
impl BuildHasher for SeedHasher {
    type Hasher = SeedHashState;
    fn build_hasher(&self) -> SeedHashState {
        SeedHashState(self.0, 0)
    }
}

type Map = HashMap<u32, u32, SeedHasher>;
type Set = HashSet<u32, SeedHasher>;

// ---------------------------------------------------------------- scenarios

#[derive(Clone, Debug, Serialize, Deserialize)]
pub struct Build {
    pub hseed: u64,
    pub cap0: usize,
    pub inserts: Vec<u32>,
    pub removes: Vec<u32>,
    pub reserve: Option<usize>,
    pub tail_inserts: Vec<u32>,
    pub tail_removes: Vec<u32>,
}

#[derive(Clone, Copy, Debug, PartialEq, Eq, PartialOrd, Ord, Serialize, Deserialize)]
pub enum Kind {
    ParIter,
    ParIterMut,
    ParKeys,
    ParValues,
    ParValuesMut,
    SetParIter,
    SetUnion,
    SetIntersection,
    SetDifference,
    SetSymmetricDifference,
    MapParExtend,
    MapParExtendRef,
    MapFromParIter,
    SetParExtend,
    SetParExtendRef,
    SetFromParIter,
    MapParEq,
    SetParEq,
    SetIsSubset,
    SetIsSuperset,
    SetIsDisjoint,
}

pub const KINDS: [Kind; 21] = [
    Kind::ParIter,
    Kind::ParIterMut,
    Kind::ParKeys,
    Kind::ParValues,
    Kind::ParValuesMut,
    Kind::SetParIter,
    Kind::SetUnion,
    Kind::SetIntersection,
    Kind::SetDifference,
    Kind::SetSymmetricDifference,
    Kind::MapParExtend,
    Kind::MapParExtendRef,
    Kind::MapFromParIter,
    Kind::SetParExtend,
    Kind::SetParExtendRef,
    Kind::SetFromParIter,
    Kind::MapParEq,
    Kind::SetParEq,
    Kind::SetIsSubset,
    Kind::SetIsSuperset,
    Kind::SetIsDisjoint,
];

#[derive(Clone, Debug, Serialize, Deserialize)]
pub struct Scenario {
    pub kind: Kind,
    pub universe: u32,
    pub a: Build,
    pub b: Build,
    pub items: Vec<(u32, u32)>,
    pub threads: usize,
    pub steal_pct: usize,
    pub injected: bool,
    pub pct_depth: Option<usize>,
}

#[derive(Clone, Debug, Serialize, Deserialize)]
pub struct ReplayFile {
    pub property: String,
    pub class: String,
    pub detail: String,
    pub seed: u64,
    pub run: u64,
    pub scenario: Scenario,
    pub schedule: String,
}

const THRESHOLDS: [u32; 8] = [3, 7, 14, 28, 56, 112, 224, 448];

fn gen_build(rng: &mut Rng, universe: u32, relate_to: Option<&Build>) -> Build {
    let hseed = rng.next_u64();
    let cap0 = match rng.below(6) {
        0..=2 => 0,
        3 => 1,
        4 => rng.range(2, 64) as usize,
        _ => rng.range(2, 600) as usize,
    };
    let usable: Vec<u32> = THRESHOLDS.iter().copied().filter(|&t| t + 12 < universe).collect();
    let n = if rng.chance(1, 12) {
        // empty and near-empty operands are corner cases of every predicate
        rng.below(3) as u32
    } else if cap0 == 0 && !usable.is_empty() && rng.chance(2, 3) {
        (*rng.pick(&usable) + 1 + rng.below(11) as u32).min(universe - 1)
    } else {
        rng.below((universe as u64).min(300)) as u32
    };
    let mut inserts: Vec<u32> = Vec::new();
    match relate_to {
        // overlap patterns for binary operations: equal / subset / superset / disjoint / partial
        Some(o) if rng.chance(3, 4) => {
            let base: Vec<u32> = final_keys(o).into_iter().collect();
            match rng.below(5) {
                0 => inserts = base.clone(),
                1 => inserts = base.iter().copied().filter(|_| rng.chance(1, 2)).collect(),
                2 => {
                    inserts = base.clone();
                    for _ in 0..rng.below(20) {
                        inserts.push(rng.below(universe as u64) as u32);
                    }
                }
                3 => {
                    let bs: BTreeSet<u32> = base.iter().copied().collect();
                    for _ in 0..n {
                        let k = rng.below(universe as u64) as u32;
                        if !bs.contains(&k) {
                            inserts.push(k);
                        }
                    }
                }
                _ => {
                    inserts = base.iter().copied().filter(|_| rng.chance(1, 2)).collect();
                    for _ in 0..rng.below(30) {
                        inserts.push(rng.below(universe as u64) as u32);
                    }
                }
            }
            // shuffle
            for i in (1..inserts.len()).rev() {
                let j = rng.below(i as u64 + 1) as usize;
                inserts.swap(i, j);
            }
        }
        _ => {
            let start = rng.below(universe as u64) as u32;
            let stride = *rng.pick(&[1u32, 3, 7, 11]);
            for i in 0..n {
                inserts.push((start + i * stride) % universe);
            }
        }
    }
    let removes: Vec<u32> = inserts.iter().copied().filter(|_| rng.chance(1, 8)).collect();
    let reserve = if rng.chance(1, 2) { Some(match rng.below(3) { 0 => usize::MAX, 1 => rng.below(300) as usize, _ => rng.below(40) as usize }) } else { None };
    let tail_inserts: Vec<u32> = (0..rng.below(4)).map(|_| rng.below(universe as u64) as u32).collect();
    let tail_removes: Vec<u32> = inserts.iter().copied().filter(|_| rng.chance(1, 12)).collect();
    Build { hseed, cap0, inserts, removes, reserve, tail_inserts, tail_removes }
}

fn final_keys(b: &Build) -> BTreeSet<u32> {
    let mut s: BTreeSet<u32> = b.inserts.iter().copied().collect();
    for k in &b.removes {
        s.remove(k);
    }
    for k in &b.tail_inserts {
        s.insert(*k);
    }
    for k in &b.tail_removes {
        s.remove(k);
    }
    s
}

pub fn gen_scenario(seed: u64, run: u64) -> Scenario {
    let mut rng = Rng::new(mix(&[seed, 15, run]));
    let kind = KINDS[rng.below(KINDS.len() as u64) as usize];
    let universe = *rng.pick(&[16u32, 64, 256, 1024]);
    let a = gen_build(&mut rng, universe, None);
    let b = gen_build(&mut rng, universe, Some(&a));
    let items: Vec<(u32, u32)> = (0..match rng.below(4) {
        0 => rng.below(3),
        1 => rng.below(20),
        _ => rng.below(200),
    })
        .map(|i| (rng.below(universe as u64) as u32, 70_000 + i as u32))
        .collect();
    let threads = match rng.below(6) {
        0 => 1,
        1 => 2,
        2 => rng.range(3, 4) as usize,
        3 => rng.range(5, 8) as usize,
        _ => rng.range(9, 16) as usize,
    };
    let steal_pct = *rng.pick(&[0usize, 10, 30, 50, 70, 100]);
    let injected = rng.chance(1, 2);
    let pct_depth = if rng.chance(1, 3) { Some(rng.range(1, 4) as usize) } else { None };
    Scenario { kind, universe, a, b, items, threads, steal_pct, injected, pct_depth }
}

fn build_map(b: &Build) -> Map {
    let mut m: Map = if b.cap0 == 0 { HashMap::with_hasher(SeedHasher(b.hseed)) } else { HashMap::with_capacity_and_hasher(b.cap0, SeedHasher(b.hseed)) };
    for &k in &b.inserts {
        m.insert(k, k.wrapping_mul(3) + 1);
    }
    for k in &b.removes {
        m.remove(k);
    }
    if let Some(n) = b.reserve {
        let n = if n == usize::MAX { m.capacity() - m.len() + 1 } else { n };
        m.reserve(n);
    }
    for &k in &b.tail_inserts {
        m.insert(k, k.wrapping_mul(3) + 1);
    }
    for k in &b.tail_removes {
        m.remove(k);
    }
    m
}

fn build_set(b: &Build) -> Set {
    let mut s: Set = if b.cap0 == 0 { HashSet::with_hasher(SeedHasher(b.hseed)) } else { HashSet::with_capacity_and_hasher(b.cap0, SeedHasher(b.hseed)) };
    for &k in &b.inserts {
        s.insert(k);
    }
    for k in &b.removes {
        s.remove(k);
    }
    if let Some(n) = b.reserve {
        let n = if n == usize::MAX { s.capacity() - s.len() + 1 } else { n };
        s.reserve(n);
    }
    for &k in &b.tail_inserts {
        s.insert(k);
    }
    for k in &b.tail_removes {
        s.remove(k);
    }
    s
}

// ---------------------------------------------------------------- per-element visit monitor

struct Visits {
    count: Vec<AtomicU32>,
    in_use: Vec<AtomicBool>,
}

impl Visits {
    fn new(universe: u32) -> Arc<Self> {
        Arc::new(Visits { count: (0..universe).map(|_| AtomicU32::new(0)).collect(), in_use: (0..universe).map(|_| AtomicBool::new(false)).collect() })
    }
    /// An element is being handed to a worker: it must not be in another worker's hands.
    fn visit(&self, k: u32) {
        let i = k as usize;
        assert!(!self.in_use[i].swap(true, Ordering::SeqCst), "element {} handed to two workers at once", k);
        // a scheduling point inside the per-element closure (zero-length sleep: see DESIGN)
        shuttle::thread::sleep(std::time::Duration::from_nanos(0));
        self.count[i].fetch_add(1, Ordering::SeqCst);
        self.in_use[i].store(false, Ordering::SeqCst);
    }
    fn check(&self, present: &BTreeSet<u32>, what: &str) {
        for (i, c) in self.count.iter().enumerate() {
            let n = c.load(Ordering::SeqCst);
            let want = present.contains(&(i as u32)) as u32;
            assert!(n == want, "{}: element {} visited {} times, expected {}", what, i, n, want);
        }
    }
}

thread_local! {
    /// (split?, old_len class, log2 buckets) of the collections of the last execution
    static LAST_STATE: std::cell::Cell<u64> = const { std::cell::Cell::new(0) };
}

fn abstract_state(st: &griddle::hash_map::VerifState) -> u64 {
    let log2 = |x: usize| if x == 0 { 0u64 } else { (usize::BITS - x.leading_zeros()) as u64 };
    let oc = if !st.split { 0 } else if st.old_len == 0 { 1 } else if st.old_len < 8 { 2 } else if st.old_len < 32 { 3 } else { 4 };
    (st.split as u64) | (log2(st.main_buckets) << 1) | (log2(st.old_buckets) << 8) | (oc << 15)
}

/// One execution of the scenario. Panics (assert!) on a violation.
pub fn execute(sc: &Scenario) {
    rayon_core::sim::begin_execution();
    // every execution needs at least one scheduling decision (shuttle's PCT scheduler insists)
    {
        let h = shuttle::thread::spawn(|| {});
        shuttle::thread::yield_now();
        h.join().unwrap();
    }
    let uni = sc.universe;
    match sc.kind {
        Kind::ParIter | Kind::ParIterMut | Kind::ParKeys | Kind::ParValues | Kind::ParValuesMut | Kind::MapParEq | Kind::MapParExtend | Kind::MapParExtendRef | Kind::MapFromParIter => {
            let mut m = build_map(&sc.a);
            let st = m.verif_state();
            LAST_STATE.with(|s| s.set(abstract_state(&st)));
            let seq: BTreeMap<u32, u32> = m.iter().map(|(k, v)| (*k, *v)).collect();
            assert_eq!(seq.len(), m.len(), "sequential iteration and len() disagree");
            let present: BTreeSet<u32> = seq.keys().copied().collect();
            let vis = Visits::new(uni);
            match sc.kind {
                Kind::ParIter => {
                    let v2 = vis.clone();
                    (&m).into_par_iter().for_each(|(k, v)| {
                        assert_eq!(seq.get(k), Some(v), "par_iter yielded ({}, {})", k, v);
                        v2.visit(*k);
                    });
                    vis.check(&present, "par_iter");
                    let mut got: Vec<(u32, u32)> = m.par_iter().map(|(k, v)| (*k, *v)).collect();
                    got.sort_unstable();
                    let want: Vec<(u32, u32)> = seq.iter().map(|(k, v)| (*k, *v)).collect();
                    assert_eq!(got, want, "par_iter().collect() differs from sequential iteration");
                    let _ = format!("{:?}", m.par_iter().clone());
                }
                Kind::ParIterMut => {
                    let v2 = vis.clone();
                    (&mut m).into_par_iter().for_each(|(k, v)| {
                        v2.visit(*k);
                        *v = v.wrapping_add(1000);
                    });
                    vis.check(&present, "par_iter_mut");
                    for (k, v) in m.iter() {
                        assert_eq!(Some(&v.wrapping_sub(1000)), seq.get(k), "par_iter_mut write for key {} landed {} times", k, (v.wrapping_sub(*seq.get(k).unwrap_or(&0))) / 1000);
                    }
                    assert_eq!(m.len(), seq.len());
                }
                Kind::ParKeys => {
                    let v2 = vis.clone();
                    m.par_keys().for_each(|k| v2.visit(*k));
                    vis.check(&present, "par_keys");
                    let _ = format!("{:?}", m.par_keys().clone());
                }
                Kind::ParValues => {
                    // values identify their key: v = 3k + 1
                    let v2 = vis.clone();
                    m.par_values().for_each(|v| v2.visit((v - 1) / 3));
                    vis.check(&present, "par_values");
                    let _ = format!("{:?}", m.par_values().clone());
                }
                Kind::ParValuesMut => {
                    let v2 = vis.clone();
                    m.par_values_mut().for_each(|v| {
                        v2.visit((*v - 1) / 3);
                        *v = v.wrapping_add(1000);
                    });
                    vis.check(&present, "par_values_mut");
                    for (k, v) in m.iter() {
                        assert_eq!(Some(&v.wrapping_sub(1000)), seq.get(k), "par_values_mut write for key {} did not land exactly once", k);
                    }
                }
                Kind::MapParEq => {
                    let other = build_map(&sc.b);
                    let mut other2 = other.clone();
                    // also an equal-contents copy with a different layout
                    let mut same: Map = HashMap::with_hasher(SeedHasher(sc.b.hseed ^ 1));
                    for (k, v) in seq.iter().rev() {
                        same.insert(*k, *v);
                    }
                    assert_eq!(m.par_eq(&other), m == other, "par_eq disagrees with ==");
                    assert_eq!(other.par_eq(&m), other == m, "par_eq disagrees with == (swapped)");
                    assert!(m.par_eq(&same) && same.par_eq(&m), "par_eq false on equal contents");
                    if let Some((k, v)) = seq.iter().next() {
                        // same length, one key exchanged for a key outside the universe
                        let mut swapped = same.clone();
                        swapped.remove(k);
                        swapped.insert(uni + 17, *v);
                        assert!(!m.par_eq(&swapped) && !swapped.par_eq(&m), "par_eq true although the key sets differ");
                        same.insert(*k, 999_999);
                        assert!(!m.par_eq(&same) && !same.par_eq(&m), "par_eq true although one value differs");
                    }
                    other2.clear();
                }
                Kind::MapParExtend | Kind::MapParExtendRef | Kind::MapFromParIter => {
                    let mut seq_m = m.clone();
                    seq_m.extend(sc.items.iter().cloned());
                    let par_m: Map = match sc.kind {
                        Kind::MapParExtend => {
                            m.par_extend(sc.items.clone().into_par_iter());
                            m
                        }
                        Kind::MapParExtendRef => {
                            let src: Map = {
                                let mut s: Map = HashMap::with_hasher(SeedHasher(sc.b.hseed));
                                s.extend(sc.items.iter().cloned());
                                s
                            };
                            let mut seq2 = m.clone();
                            seq2.extend(src.iter());
                            seq_m = seq2;
                            m.par_extend(src.par_iter());
                            m
                        }
                        _ => {
                            let mut fresh: Map = HashMap::default();
                            fresh.extend(sc.items.iter().cloned());
                            seq_m = fresh;
                            sc.items.clone().into_par_iter().collect()
                        }
                    };
                    assert_eq!(par_m.len(), seq_m.len(), "par_extend/from_par_iter built {} elements, sequential extend {}", par_m.len(), seq_m.len());
                    let a: BTreeMap<u32, u32> = par_m.iter().map(|(k, v)| (*k, *v)).collect();
                    let b: BTreeMap<u32, u32> = seq_m.iter().map(|(k, v)| (*k, *v)).collect();
                    assert_eq!(a, b, "par_extend/from_par_iter differs from sequential extend");
                }
                _ => unreachable!(),
            }
        }
        _ => {
            let mut s = build_set(&sc.a);
            let t = build_set(&sc.b);
            let (st, st2) = (s.verif_state(), t.verif_state());
            LAST_STATE.with(|x| x.set(abstract_state(&st) ^ abstract_state(&st2).rotate_left(20)));
            let ks: BTreeSet<u32> = s.iter().copied().collect();
            let kt: BTreeSet<u32> = t.iter().copied().collect();
            assert_eq!(ks.len(), s.len());
            let vis = Visits::new(uni);
            let v2 = vis.clone();
            match sc.kind {
                Kind::SetParIter => {
                    (&s).into_par_iter().for_each(|k| v2.visit(*k));
                    vis.check(&ks, "set par_iter");
                    let mut got: Vec<u32> = s.par_iter().copied().collect();
                    got.sort_unstable();
                    assert_eq!(got, ks.iter().copied().collect::<Vec<_>>(), "set par_iter().collect() differs");
                }
                Kind::SetUnion => {
                    s.par_union(&t).for_each(|k| v2.visit(*k));
                    vis.check(&ks.union(&kt).copied().collect(), "par_union");
                }
                Kind::SetIntersection => {
                    s.par_intersection(&t).for_each(|k| v2.visit(*k));
                    vis.check(&ks.intersection(&kt).copied().collect(), "par_intersection");
                }
                Kind::SetDifference => {
                    s.par_difference(&t).for_each(|k| v2.visit(*k));
                    vis.check(&ks.difference(&kt).copied().collect(), "par_difference");
                }
                Kind::SetSymmetricDifference => {
                    s.par_symmetric_difference(&t).for_each(|k| v2.visit(*k));
                    vis.check(&ks.symmetric_difference(&kt).copied().collect(), "par_symmetric_difference");
                }
                Kind::SetParExtend | Kind::SetParExtendRef | Kind::SetFromParIter => {
                    let items: Vec<u32> = sc.items.iter().map(|x| x.0).collect();
                    let mut seq_s = s.clone();
                    seq_s.extend(items.iter().copied());
                    let par_s: Set = match sc.kind {
                        Kind::SetParExtend => {
                            s.par_extend(items.clone().into_par_iter());
                            s
                        }
                        Kind::SetParExtendRef => {
                            let mut seq2 = s.clone();
                            seq2.extend(t.iter());
                            seq_s = seq2;
                            s.par_extend(t.par_iter());
                            s
                        }
                        _ => {
                            let mut fresh: Set = HashSet::default();
                            fresh.extend(items.iter().copied());
                            seq_s = fresh;
                            items.clone().into_par_iter().collect()
                        }
                    };
                    let a: BTreeSet<u32> = par_s.iter().copied().collect();
                    let b: BTreeSet<u32> = seq_s.iter().copied().collect();
                    assert_eq!(par_s.len(), a.len(), "set built in parallel reports len {} but iterates {}", par_s.len(), a.len());
                    assert_eq!(a, b, "set par_extend/from_par_iter differs from sequential extend");
                }
                Kind::SetParEq => {
                    assert_eq!(s.par_eq(&t), s == t, "set par_eq disagrees with ==");
                    assert_eq!(t.par_eq(&s), t == s, "set par_eq disagrees with == (swapped)");
                    let mut same: Set = HashSet::with_hasher(SeedHasher(sc.b.hseed ^ 1));
                    for k in ks.iter().rev() {
                        same.insert(*k);
                    }
                    assert!(s.par_eq(&same) && same.par_eq(&s), "set par_eq false on equal contents");
                }
                Kind::SetIsSubset => {
                    assert_eq!(s.par_is_subset(&t), ks.is_subset(&kt), "par_is_subset wrong");
                    assert_eq!(t.par_is_subset(&s), kt.is_subset(&ks), "par_is_subset wrong (swapped)");
                }
                Kind::SetIsSuperset => {
                    assert_eq!(s.par_is_superset(&t), ks.is_superset(&kt), "par_is_superset wrong");
                    assert_eq!(t.par_is_superset(&s), kt.is_superset(&ks), "par_is_superset wrong (swapped)");
                }
                Kind::SetIsDisjoint => {
                    assert_eq!(s.par_is_disjoint(&t), ks.is_disjoint(&kt), "par_is_disjoint wrong");
                    assert_eq!(t.par_is_disjoint(&s), kt.is_disjoint(&ks), "par_is_disjoint wrong (swapped)");
                }
                _ => unreachable!(),
            }
        }
    }
}

// ---------------------------------------------------------------- driving shuttle

fn shuttle_config(dir: Option<std::path::PathBuf>) -> shuttle::Config {
    let mut cfg = shuttle::Config::new();
    cfg.failure_persistence = match dir {
        Some(d) => shuttle::FailurePersistence::File(Some(d)),
        None => shuttle::FailurePersistence::None,
    };
    cfg.max_steps = shuttle::MaxSteps::FailAfter(2_000_000);
    cfg.silence_warnings = true;
    cfg
}

struct ExecStats {
    executions: u64,
    joins: u64,
    steals: u64,
    trees: BTreeSet<u64>,
    states: BTreeSet<u64>,
    max_depth: usize,
}

/// Run `iters` seeded schedules of one scenario. Ok(stats) or Err((message, schedule)).
fn run_scenario(sc: &Scenario, sched_seed: u64, iters: usize, stats: &mut ExecStats, scratch: &std::path::Path) -> Result<(), (String, String)> {
    rayon_core::sim::configure(sc.threads, sc.steal_pct, sc.injected);
    let _ = std::fs::remove_dir_all(scratch);
    std::fs::create_dir_all(scratch).expect("scratch dir");
    let sc2 = sc.clone();
    let collected: Arc<std::sync::Mutex<Vec<(u64, u64, u64, usize, u64)>>> = Arc::new(std::sync::Mutex::new(Vec::new()));
    let c2 = collected.clone();
    let body = move || {
        execute(&sc2);
        let (j, s, t, d) = rayon_core::sim::stats();
        let st = LAST_STATE.with(|x| x.get());
        c2.lock().unwrap().push((j, s, t, d, st));
    };
    let r = std::panic::catch_unwind(std::panic::AssertUnwindSafe(|| {
        let cfg = shuttle_config(Some(scratch.to_path_buf()));
        match sc.pct_depth {
            Some(d) => {
                let sched = shuttle::scheduler::PctScheduler::new_from_seed(sched_seed, d, iters);
                shuttle::Runner::new(sched, cfg).run(body);
            }
            None => {
                let sched = shuttle::scheduler::RandomScheduler::new_from_seed(sched_seed, iters);
                shuttle::Runner::new(sched, cfg).run(body);
            }
        }
    }));
    for (j, s, t, d, st) in collected.lock().unwrap().iter() {
        stats.executions += 1;
        stats.joins += j;
        stats.steals += s;
        stats.trees.insert(*t);
        stats.max_depth = stats.max_depth.max(*d);
        stats.states.insert(splitmix64(*st ^ ((sc.kind as u64) << 40) ^ ((sc.threads.min(17) as u64) << 48) ^ (t.wrapping_mul(0x9E37_79B9_7F4A_7C15))));
    }
    match r {
        Ok(()) => Ok(()),
        Err(p) => {
            let msg = if let Some(s) = p.downcast_ref::<String>() {
                s.clone()
            } else if let Some(s) = p.downcast_ref::<&'static str>() {
                s.to_string()
            } else {
                "<panic>".to_string()
            };
            let mut schedule = String::new();
            if let Ok(rd) = std::fs::read_dir(scratch) {
                for e in rd.flatten() {
                    if let Ok(t) = std::fs::read_to_string(e.path()) {
                        schedule = t;
                    }
                }
            }
            Err((msg, schedule))
        }
    }
}

fn arg<'a>(args: &'a [String], name: &str) -> Option<&'a str> {
    args.iter().position(|a| a == name).and_then(|i| args.get(i + 1)).map(|s| s.as_str())
}
fn arg_u64(args: &[String], name: &str, d: u64) -> u64 {
    arg(args, name).map(|s| s.parse().expect("number")).unwrap_or(d)
}

fn cmd_run(args: &[String]) -> i32 {
    let seed = arg_u64(args, "--seed", 1);
    let from = arg_u64(args, "--from", 0);
    let count = arg_u64(args, "--count", 100);
    let stride = arg_u64(args, "--stride", 1);
    let offset = arg_u64(args, "--offset", 0);
    let iters = arg_u64(args, "--iters", 8) as usize;
    let max_secs = arg_u64(args, "--max-secs", 3600);
    let out = arg(args, "--out").map(|s| s.to_string());
    let scratch = std::env::temp_dir().join(format!("gsim-rayon-{}", std::process::id()));
    let t0 = std::time::Instant::now();
    let mut stats = ExecStats { executions: 0, joins: 0, steals: 0, trees: BTreeSet::new(), states: BTreeSet::new(), max_depth: 0 };
    let mut kinds: BTreeMap<String, u64> = BTreeMap::new();
    let mut pools: BTreeMap<usize, u64> = BTreeMap::new();
    let mut split_runs = 0u64;
    let mut runs = 0u64;
    let mut violations = Vec::new();
    let mut samples = Vec::new();
    let mut truncated = false;
    let mut i = from + offset;
    while i < from + count {
        if t0.elapsed().as_secs() >= max_secs {
            truncated = true;
            break;
        }
        let sc = gen_scenario(seed, i);
        *kinds.entry(format!("{:?}", sc.kind)).or_insert(0) += 1;
        *pools.entry(sc.threads).or_insert(0) += 1;
        let before = stats.executions;
        let r = run_scenario(&sc, mix(&[seed, 1500, i]), iters, &mut stats, &scratch);
        runs += 1;
        let _ = before;
        if LAST_STATE.with(|x| x.get()) & 1 == 1 {
            split_runs += 1;
        }
        if samples.len() < 2 && sc.a.inserts.len() < 24 && sc.b.inserts.len() < 24 {
            samples.push(serde_json::json!({"run": i, "scenario": sc}));
        }
        if let Err((msg, schedule)) = r {
            violations.push(serde_json::json!({"run": i, "class": "rayon-mismatch", "op_kind": format!("{:?}", sc.kind), "op_index": 0, "detail": msg, "elem": "Plain", "schedule": schedule}));
            if violations.len() >= 4 {
                break;
            }
        }
        i += stride;
    }
    let _ = std::fs::remove_dir_all(&scratch);
    let result = serde_json::json!({
        "runs": runs, "executions": stats.executions, "joins": stats.joins, "steals": stats.steals,
        "trees": stats.trees.iter().collect::<Vec<_>>(), "states": stats.states.iter().collect::<Vec<_>>(),
        "max_join_depth": stats.max_depth, "kinds": kinds, "pools": pools, "runs_with_split_operand": split_runs,
        "violations": violations, "samples": samples, "truncated": truncated, "wall_s": t0.elapsed().as_secs_f64(),
    });
    let text = serde_json::to_string(&result).unwrap();
    match out {
        Some(p) => std::fs::write(p, text).expect("write"),
        None => println!("{}", text),
    }
    0
}

fn cmd_show(args: &[String]) -> i32 {
    let seed = arg_u64(args, "--seed", 1);
    let run = arg_u64(args, "--run", 0);
    let rf = ReplayFile { property: "C15".into(), class: "rayon-mismatch".into(), detail: arg(args, "--detail").unwrap_or("").to_string(), seed, run, scenario: gen_scenario(seed, run), schedule: arg(args, "--schedule").unwrap_or("").to_string() };
    println!("{}", serde_json::to_string_pretty(&rf).unwrap());
    0
}

fn cmd_replay(args: &[String]) -> i32 {
    let rf: ReplayFile = serde_json::from_str(&std::fs::read_to_string(&args[0]).expect("read")).expect("parse");
    let sc = rf.scenario.clone();
    rayon_core::sim::configure(sc.threads, sc.steal_pct, sc.injected);
    let r = std::panic::catch_unwind(std::panic::AssertUnwindSafe(|| {
        if rf.schedule.trim().is_empty() {
            // no recorded schedule: re-run the seeded search for this scenario
            let mut stats = ExecStats { executions: 0, joins: 0, steals: 0, trees: BTreeSet::new(), states: BTreeSet::new(), max_depth: 0 };
            let scratch = std::env::temp_dir().join(format!("gsim-rayon-replay-{}", std::process::id()));
            let r = run_scenario(&sc, mix(&[rf.seed, 1500, rf.run]), 64, &mut stats, &scratch);
            let _ = std::fs::remove_dir_all(&scratch);
            if let Err((m, _)) = r {
                panic!("{}", m);
            }
        } else {
            let mut cfg = shuttle_config(None);
            cfg.failure_persistence = shuttle::FailurePersistence::None;
            let sc2 = sc.clone();
            let sched = shuttle::scheduler::ReplayScheduler::new_from_encoded(rf.schedule.trim());
            shuttle::Runner::new(sched, cfg).run(move || execute(&sc2));
        }
    }));
    match r {
        Ok(()) => {
            println!("NOT-REPRODUCED property=C15");
            0
        }
        Err(p) => {
            let msg = p.downcast_ref::<String>().cloned().or_else(|| p.downcast_ref::<&'static str>().map(|s| s.to_string())).unwrap_or_default();
            println!("REPRODUCED property=C15 class=rayon-mismatch detail={}", msg.lines().next().unwrap_or(""));
            1
        }
    }
}

fn main() {
    std::panic::set_hook(Box::new(|_| {}));
    let args: Vec<String> = std::env::args().skip(1).collect();
    let code = match args.first().map(|s| s.as_str()) {
        Some("run") => cmd_run(&args[1..]),
        Some("show") => cmd_show(&args[1..]),
        Some("replay") => cmd_replay(&args[1..]),
        _ => {
            eprintln!("usage: gsim-rayon run|show|replay ...");
            2
        }
    };
    std::process::exit(code);
}
