//! A stand-in for `rayon-core` whose scheduling decisions belong to the simulator.
//!
//! rayon's iterator plumbing reaches the scheduler only through `join_context`, `join`,
//! `current_num_threads`, `current_thread_index` and `in_place_scope`. Here:
//!
//! * `current_num_threads()` is the per-run pool size chosen by the simulator;
//! * `join_context(a, b)`: a seeded coin (shuttle's deterministic, replayable random source)
//!   decides whether `b` is *stolen*. Not stolen: `a` then `b` on the caller; both see
//!   `migrated == injected` for the outermost call and `false` below it - exactly what
//!   rayon-core's `join_context` does when nobody steals. Stolen: `b` runs as a shuttle thread
//!   with `migrated == true`, concurrently with `a`, and is joined before returning.
//!   rayon's real `Splitter` reacts to `migrated` and to the pool size, so the coins choose the
//!   split tree and shuttle's scheduler chooses the interleaving of the leaves;
//! * everything else that rayon re-exports exists so that rayon compiles; what griddle's code
//!   paths cannot reach is `unimplemented!()`.

use std::any::Any;
use std::marker::PhantomData;
use std::sync::atomic::{AtomicBool, AtomicU64, AtomicUsize, Ordering};

pub mod sim {
    //! Knobs and counters owned by the simulator.
    use super::*;

    pub(crate) static NUM_THREADS: AtomicUsize = AtomicUsize::new(1);
    pub(crate) static STEAL_PCT: AtomicUsize = AtomicUsize::new(50);
    pub(crate) static INJECTED: AtomicBool = AtomicBool::new(true);
    pub(crate) static JOINS: AtomicU64 = AtomicU64::new(0);
    pub(crate) static STEALS: AtomicU64 = AtomicU64::new(0);
    pub(crate) static TREE_HASH: AtomicU64 = AtomicU64::new(0);
    pub(crate) static NEXT_WORKER: AtomicUsize = AtomicUsize::new(1);
    pub(crate) static MAX_DEPTH: AtomicUsize = AtomicUsize::new(0);

    /// Configure the simulated pool for the executions that follow.
    pub fn configure(num_threads: usize, steal_pct: usize, injected: bool) {
        NUM_THREADS.store(num_threads.max(1), Ordering::SeqCst);
        STEAL_PCT.store(steal_pct.min(100), Ordering::SeqCst);
        INJECTED.store(injected, Ordering::SeqCst);
    }

    /// Reset the per-execution counters (call at the start of every execution).
    pub fn begin_execution() {
        JOINS.store(0, Ordering::SeqCst);
        STEALS.store(0, Ordering::SeqCst);
        TREE_HASH.store(0xcbf2_9ce4_8422_2325, Ordering::SeqCst);
        NEXT_WORKER.store(1, Ordering::SeqCst);
        MAX_DEPTH.store(0, Ordering::SeqCst);
    }

    /// (joins, steals, hash of the (depth, stolen) decision sequence, deepest join nesting)
    pub fn stats() -> (u64, u64, u64, usize) {
        (JOINS.load(Ordering::SeqCst), STEALS.load(Ordering::SeqCst), TREE_HASH.load(Ordering::SeqCst), MAX_DEPTH.load(Ordering::SeqCst))
    }
}

shuttle::thread_local! {
    static WORKER_INDEX: std::cell::Cell<usize> = std::cell::Cell::new(0);
    static DEPTH: std::cell::Cell<usize> = std::cell::Cell::new(0);
}

/// Provides context to a closure called by `join_context`.
#[derive(Debug)]
pub struct FnContext {
    migrated: bool,
    _marker: PhantomData<*mut ()>,
}

impl FnContext {
    fn new(migrated: bool) -> Self {
        FnContext { migrated, _marker: PhantomData }
    }
    /// Returns `true` if the closure was called from a different thread than it was provided from.
    pub fn migrated(&self) -> bool {
        self.migrated
    }
}

struct SendPtr<T>(*mut T);
unsafe impl<T> Send for SendPtr<T> {}

fn note_decision(depth: usize, stolen: bool) {
    sim::JOINS.fetch_add(1, Ordering::SeqCst);
    if stolen {
        sim::STEALS.fetch_add(1, Ordering::SeqCst);
    }
    let mut h = sim::TREE_HASH.load(Ordering::SeqCst);
    h = (h ^ ((depth as u64) << 1 | stolen as u64)).wrapping_mul(0x100_0000_01b3);
    sim::TREE_HASH.store(h, Ordering::SeqCst);
    sim::MAX_DEPTH.fetch_max(depth, Ordering::SeqCst);
}

/// Identical in contract to rayon-core's `join_context`.
pub fn join_context<A, B, RA, RB>(oper_a: A, oper_b: B) -> (RA, RB)
where
    A: FnOnce(FnContext) -> RA + Send,
    B: FnOnce(FnContext) -> RB + Send,
    RA: Send,
    RB: Send,
{
    use shuttle::rand::Rng;
    let depth = DEPTH.with(|d| d.get());
    let injected = depth == 0 && sim::INJECTED.load(Ordering::SeqCst);
    let pct = sim::STEAL_PCT.load(Ordering::SeqCst);
    let pool = sim::NUM_THREADS.load(Ordering::SeqCst);
    // a pool of one thread has nobody to steal
    let stolen = pool > 1 && pct > 0 && (pct >= 100 || shuttle::rand::thread_rng().gen_range(0..100usize) < pct);
    note_decision(depth, stolen);
    DEPTH.with(|d| d.set(depth + 1));
    let result = if !stolen {
        let ra = oper_a(FnContext::new(injected));
        let rb = oper_b(FnContext::new(injected));
        (ra, rb)
    } else {
        let mut slot: Option<RB> = None;
        let slot_ptr = SendPtr(&mut slot as *mut Option<RB>);
        let worker = sim::NEXT_WORKER.fetch_add(1, Ordering::SeqCst) % pool.max(1);
        let child_depth = depth + 1;
        let job: Box<dyn FnOnce() + Send + '_> = Box::new(move || {
            let slot_ptr = slot_ptr;
            WORKER_INDEX.with(|w| w.set(worker));
            DEPTH.with(|d| d.set(child_depth));
            let r = oper_b(FnContext::new(true));
            // SAFETY: the spawning frame joins this thread before `slot` goes out of scope.
            unsafe { *slot_ptr.0 = Some(r) };
        });
        // SAFETY: lifetime erasure exactly as rayon-core's StackJob does: the job is joined
        // below before anything it borrows can be dropped, on every path including unwinding.
        let job: Box<dyn FnOnce() + Send + 'static> = unsafe { std::mem::transmute(job) };
        let handle = shuttle::thread::spawn(job);
        let ra = std::panic::catch_unwind(std::panic::AssertUnwindSafe(|| oper_a(FnContext::new(injected))));
        let joined: Result<(), Box<dyn Any + Send>> = handle.join();
        match (ra, joined) {
            (Ok(ra), Ok(())) => (ra, slot.take().expect("stolen job finished without a result")),
            (Err(p), _) => std::panic::resume_unwind(p),
            (_, Err(p)) => std::panic::resume_unwind(p),
        }
    };
    DEPTH.with(|d| d.set(depth));
    result
}

/// Identical in contract to rayon-core's `join`.
pub fn join<A, B, RA, RB>(oper_a: A, oper_b: B) -> (RA, RB)
where
    A: FnOnce() -> RA + Send,
    B: FnOnce() -> RB + Send,
    RA: Send,
    RB: Send,
{
    join_context(|_| oper_a(), |_| oper_b())
}

/// The simulated pool size.
pub fn current_num_threads() -> usize {
    sim::NUM_THREADS.load(Ordering::SeqCst)
}

/// Index of the simulated worker running the caller.
pub fn current_thread_index() -> Option<usize> {
    Some(WORKER_INDEX.with(|w| w.get()))
}

/// Upper bound on pool sizes.
pub fn max_num_threads() -> usize {
    1 << 16
}

/// Scope handle (only `in_place_scope` + `spawn` are functional: spawned bodies run at once).
#[derive(Debug)]
pub struct Scope<'scope> {
    _marker: PhantomData<&'scope mut &'scope ()>,
}

impl<'scope> Scope<'scope> {
    /// Runs `body` immediately on the caller.
    pub fn spawn<BODY>(&self, body: BODY)
    where
        BODY: FnOnce(&Scope<'scope>) + Send + 'scope,
    {
        body(self)
    }
}

/// Creates a scope on the calling thread.
pub fn in_place_scope<'scope, OP, R>(op: OP) -> R
where
    OP: FnOnce(&Scope<'scope>) -> R,
{
    op(&Scope { _marker: PhantomData })
}

/// Same as `in_place_scope` here.
pub fn scope<'scope, OP, R>(op: OP) -> R
where
    OP: FnOnce(&Scope<'scope>) -> R + Send,
    R: Send,
{
    op(&Scope { _marker: PhantomData })
}

/// Not reachable from griddle's code paths.
#[derive(Debug)]
pub struct ScopeFifo<'scope> {
    _marker: PhantomData<&'scope mut &'scope ()>,
}

/// Not reachable from griddle's code paths.
pub fn scope_fifo<'scope, OP, R>(_op: OP) -> R
where
    OP: FnOnce(&ScopeFifo<'scope>) -> R + Send,
    R: Send,
{
    unimplemented!("rayon-core-sim: scope_fifo")
}

/// Not reachable from griddle's code paths.
pub fn in_place_scope_fifo<'scope, OP, R>(_op: OP) -> R
where
    OP: FnOnce(&ScopeFifo<'scope>) -> R,
{
    unimplemented!("rayon-core-sim: in_place_scope_fifo")
}

/// Not reachable from griddle's code paths.
pub fn spawn<F: FnOnce() + Send + 'static>(_f: F) {
    unimplemented!("rayon-core-sim: spawn")
}

/// Not reachable from griddle's code paths.
pub fn spawn_fifo<F: FnOnce() + Send + 'static>(_f: F) {
    unimplemented!("rayon-core-sim: spawn_fifo")
}

/// Not reachable from griddle's code paths.
#[derive(Debug)]
pub struct BroadcastContext<'a> {
    _marker: PhantomData<&'a ()>,
}

/// Not reachable from griddle's code paths.
pub fn broadcast<OP, R>(_op: OP) -> Vec<R>
where
    OP: Fn(BroadcastContext<'_>) -> R + Sync,
    R: Send,
{
    unimplemented!("rayon-core-sim: broadcast")
}

/// Not reachable from griddle's code paths.
pub fn spawn_broadcast<OP>(_op: OP)
where
    OP: Fn(BroadcastContext<'_>) + Send + Sync + 'static,
{
    unimplemented!("rayon-core-sim: spawn_broadcast")
}

/// Result of `yield_now` / `yield_local`.
#[derive(Clone, Copy, Debug, PartialEq, Eq)]
pub enum Yield {
    /// Work was found and executed.
    Executed,
    /// No available work was found.
    Idle,
}

/// Nothing to run: the simulated pool has no queues.
pub fn yield_now() -> Option<Yield> {
    Some(Yield::Idle)
}

/// Nothing to run: the simulated pool has no queues.
pub fn yield_local() -> Option<Yield> {
    Some(Yield::Idle)
}

/// Placeholder so that rayon's re-exports resolve.
#[derive(Debug)]
pub struct ThreadBuilder;

/// Placeholder so that rayon's re-exports resolve.
#[derive(Debug)]
pub struct ThreadPool;

/// Placeholder so that rayon's re-exports resolve.
#[derive(Debug)]
pub struct ThreadPoolBuildError;

impl std::fmt::Display for ThreadPoolBuildError {
    fn fmt(&self, f: &mut std::fmt::Formatter<'_>) -> std::fmt::Result {
        write!(f, "rayon-core-sim has no real thread pools")
    }
}
impl std::error::Error for ThreadPoolBuildError {}

/// Placeholder so that rayon's re-exports resolve.
#[derive(Debug, Default)]
pub struct ThreadPoolBuilder;

impl ThreadPoolBuilder {
    /// Placeholder.
    pub fn new() -> Self {
        ThreadPoolBuilder
    }
    /// The pool size is owned by the simulator (`sim::configure`).
    pub fn num_threads(self, _n: usize) -> Self {
        self
    }
    /// Always fails: there are no real pools here.
    pub fn build(self) -> Result<ThreadPool, ThreadPoolBuildError> {
        Err(ThreadPoolBuildError)
    }
    /// Always fails: there are no real pools here.
    pub fn build_global(self) -> Result<(), ThreadPoolBuildError> {
        Err(ThreadPoolBuildError)
    }
}
