fn main() {}
