//! Per-run context shared by the seams: callback counters, the panic fuse, the object ledger
//! and deterministic object ids. Thread-local; every worker process runs one simulation
//! thread.

use crate::alloc::{HarnessGuard, ALLOC};
use std::cell::RefCell;
use std::collections::BTreeMap;

#[derive(Clone, Copy, Debug, PartialEq, Eq, PartialOrd, Ord, Hash, serde::Serialize, serde::Deserialize)]
pub enum Site {
    Hash,
    Eq,
    Clone,
    Closure,
    /// a destructor of a stored value (only injected by operations that ask for it)
    Drop,
}

impl Site {
    pub fn name(self) -> &'static str {
        match self {
            Site::Hash => "Hash",
            Site::Eq => "Eq",
            Site::Clone => "Clone",
            Site::Closure => "Closure",
            Site::Drop => "Drop",
        }
    }
}

/// Logic-error keys. Safe code may implement `Hash`/`Eq` inconsistently (or mutate a key
/// through interior mutability while it is stored); the result is unspecified but must stay
/// memory-safe. Three independent ingredients, chosen by `kind` bits:
/// 1 = the hash of a residue class of keys changes at operation boundaries ("mutated keys"),
/// 2 = individual hash computations return a perturbed value (`pct` percent of the calls),
/// 4 = individual `Eq` calls of tracked keys return the opposite answer (`pct` percent).
#[derive(Clone, Copy, Debug, Default)]
pub struct Chaos {
    pub seed: u64,
    pub kind: u8,
    pub pct: u8,
    pub ctr: u64,
    pub epochs: [u32; 4],
    pub perturbed_hashes: u64,
    pub perturbed_eqs: u64,
}

impl Chaos {
    pub fn from_seed(seed: u64) -> Chaos {
        let r = crate::rng::splitmix64(seed ^ 0xC4A0_5EED);
        Chaos { seed, kind: 1 + (r % 7) as u8, pct: [2u8, 5, 10, 25, 50][((r >> 8) % 5) as usize], ..Chaos::default() }
    }
}

/// Operation boundary: maybe "mutate" the keys of one residue class.
pub fn chaos_tick(op_index: usize) {
    CTX.with(|c| {
        if let Some(ch) = c.borrow_mut().chaos.as_mut() {
            if ch.kind & 1 != 0 {
                let r = crate::rng::splitmix64(ch.seed ^ (op_index as u64).wrapping_mul(0x9E37_79B9_7F4A_7C15));
                if r % 5 == 0 {
                    ch.epochs[((r >> 8) & 3) as usize] += 1;
                }
            }
        }
    });
}

#[inline]
pub fn chaos_hash(acc: u64, h: u64) -> u64 {
    CTX.with(|c| {
        let mut c = c.borrow_mut();
        match c.chaos.as_mut() {
            None => h,
            Some(ch) => {
                let mut h = h;
                let e = ch.epochs[(acc & 3) as usize];
                if e != 0 {
                    h = crate::rng::splitmix64(h ^ e as u64);
                    ch.perturbed_hashes += 1;
                }
                if ch.kind & 2 != 0 {
                    ch.ctr += 1;
                    let r = crate::rng::splitmix64(ch.seed ^ ch.ctr);
                    if r % 100 < ch.pct as u64 {
                        h = crate::rng::splitmix64(h ^ r);
                        ch.perturbed_hashes += 1;
                    }
                }
                h
            }
        }
    })
}

#[inline]
pub fn chaos_eq(b: bool) -> bool {
    CTX.with(|c| {
        let mut c = c.borrow_mut();
        match c.chaos.as_mut() {
            Some(ch) if ch.kind & 4 != 0 => {
                ch.ctr += 1;
                let r = crate::rng::splitmix64(ch.seed ^ ch.ctr);
                if r % 100 < ch.pct as u64 {
                    ch.perturbed_eqs += 1;
                    !b
                } else {
                    b
                }
            }
            _ => b,
        }
    })
}

/// The payload of an injected panic.
pub struct FuseBlown;

#[derive(Clone, Copy, Debug, PartialEq, Eq)]
pub enum ObjState {
    Live,
    Dropped,
    /// Inside an iterator that was `mem::forget`-ed (or a clone leaked by an interrupted
    /// `clone_from`): exempt from the leak check, never from the double-drop check.
    Forgotten,
}

#[derive(Clone, Copy, Debug)]
pub struct Obj {
    pub state: ObjState,
    pub is_key: bool,
    pub cloned_from: u64,
    pub born_in_sut: bool,
}

#[derive(Default)]
pub struct Ctx {
    // per-window counters
    pub hashes: u64,
    pub eqs: u64,
    pub clones: u64,
    pub closures: u64,
    pub cb_seq: u64,
    pub cb_log: Vec<Site>,
    pub record: bool,
    // fuse
    pub fuse: Option<u64>,
    pub fuse_fired: Option<(Site, u64)>,
    /// panic in the n-th destructor of a stored value run inside the SUT window
    pub drop_fuse: Option<u64>,
    pub drops_in_sut: u64,
    /// destructors of stored objects are callbacks of the general sequence (and so crash
    /// points of the general fuse) in this run
    pub drop_in_seq: bool,
    /// zero-sized objects with destructors: constructions minus destructor runs
    pub zst_live: i64,
    pub zst_overdrop: bool,
    /// objects were leaked on purpose (mem::forget of an owning iterator)
    pub zst_slack: bool,
    /// logic-error keys (inconsistent Hash / Eq), see `Chaos`
    pub chaos: Option<Chaos>,
    /// the rest of this run judges structure only (C05 after an interrupted clone_from)
    pub structural: bool,
    // ids
    pub step: u64,
    pub next_in_step: u64,
    // ledger
    pub ledger: BTreeMap<u64, Obj>,
    pub ledger_errors: Vec<String>,
    pub drops_in_window: u64,
    pub dropped_ids_in_window: Vec<u64>,
    // default hasher for collections created through `Default`
    pub default_hasher: (u64, u8),
    // totals for evidence
    pub total_fuse_fired: [u64; 5],
}

thread_local! {
    pub static CTX: RefCell<Ctx> = RefCell::new(Ctx::default());
}

#[inline]
fn in_sut_window() -> bool {
    ALLOC.with(|a| a.in_sut.get() > 0 && a.harness.get() == 0)
}

pub fn reset_run() {
    CTX.with(|c| {
        let mut c = c.borrow_mut();
        let totals = c.total_fuse_fired;
        let dis = c.drop_in_seq;
        *c = Ctx::default();
        c.total_fuse_fired = totals;
        c.drop_in_seq = dis;
    });
}

pub fn set_step(step: u64) {
    CTX.with(|c| {
        let mut c = c.borrow_mut();
        c.step = step;
        c.next_in_step = 0;
    });
}

pub fn window_reset() {
    CTX.with(|c| {
        let mut c = c.borrow_mut();
        c.hashes = 0;
        c.eqs = 0;
        c.clones = 0;
        c.closures = 0;
        c.cb_seq = 0;
        c.cb_log.clear();
        c.fuse_fired = None;
        c.drops_in_sut = 0;
        c.drops_in_window = 0;
        c.dropped_ids_in_window.clear();
    });
}

/// A user callback of kind `site` is being invoked by the collection. Counts it and blows the
/// fuse if it is armed for this ordinal. Must be called *outside* any `HarnessGuard`.
#[inline]
pub fn callback(site: Site) {
    if !in_sut_window() {
        return;
    }
    let blow = {
        let _g = HarnessGuard::new();
        CTX.with(|c| {
            let mut c = c.borrow_mut();
            match site {
                Site::Hash => c.hashes += 1,
                Site::Eq => c.eqs += 1,
                Site::Clone => c.clones += 1,
                Site::Closure => c.closures += 1,
                Site::Drop => {}
            }
            c.cb_seq += 1;
            if c.record {
                c.cb_log.push(site);
            }
            if c.fuse == Some(c.cb_seq) && c.fuse_fired.is_none() && !std::thread::panicking() {
                let n = c.cb_seq;
                c.fuse_fired = Some((site, n));
                c.total_fuse_fired[site as usize] += 1;
                true
            } else {
                false
            }
        })
    };
    if blow {
        let _g = HarnessGuard::new();
        std::panic::panic_any(FuseBlown);
    }
}

pub fn zst_born() {
    let _g = HarnessGuard::new();
    CTX.with(|c| c.borrow_mut().zst_live += 1);
}

pub fn zst_died() {
    let _g = HarnessGuard::new();
    CTX.with(|c| {
        let mut c = c.borrow_mut();
        c.zst_live -= 1;
        if c.zst_live < 0 {
            c.zst_overdrop = true;
        }
    });
}

/// A stored value's destructor runs. If the drop fuse is armed for this ordinal (and no panic
/// is already unwinding), the destructor panics - after the ledger has recorded the drop.
pub fn drop_callback() {
    if !in_sut_window() {
        return;
    }
    let blow = {
        let _g = HarnessGuard::new();
        CTX.with(|c| {
            let mut c = c.borrow_mut();
            c.drops_in_sut += 1;
            if c.drop_fuse == Some(c.drops_in_sut) && c.fuse_fired.is_none() && !std::thread::panicking() {
                let n = c.drops_in_sut;
                c.fuse_fired = Some((Site::Drop, n));
                c.total_fuse_fired[Site::Drop as usize] += 1;
                true
            } else {
                false
            }
        })
    };
    if blow {
        let _g = HarnessGuard::new();
        std::panic::panic_any(FuseBlown);
    }
    if CTX.with(|c| c.borrow().drop_in_seq) {
        callback(Site::Drop);
    }
}

/// Allocate a deterministic object id: a function of (step, creation ordinal within step).
pub fn new_id(is_key: bool, cloned_from: u64) -> u64 {
    let born_in_sut = in_sut_window();
    let _g = HarnessGuard::new();
    CTX.with(|c| {
        let mut c = c.borrow_mut();
        c.next_in_step += 1;
        let id = (c.step + 1) * 1_000_000 + c.next_in_step;
        c.ledger.insert(
            id,
            Obj {
                state: ObjState::Live,
                is_key,
                cloned_from,
                born_in_sut,
            },
        );
        id
    })
}

pub fn note_drop(id: u64) {
    if id == 0 {
        return;
    }
    let _g = HarnessGuard::new();
    CTX.with(|c| {
        let mut c = c.borrow_mut();
        c.drops_in_window += 1;
        c.dropped_ids_in_window.push(id);
        // the ledger holds live objects only: dropping removes the entry
        if c.ledger.remove(&id).is_none() {
            c.ledger_errors.push(format!("double drop of object {} (or drop of an object that never existed)", id));
        }
    });
}

/// Check that object `id` is live; called from every hash/eq/clone/read of a tracked object.
pub fn check_live(id: u64, what: &str) {
    if id == 0 {
        return;
    }
    let _g = HarnessGuard::new();
    CTX.with(|c| {
        let mut c = c.borrow_mut();
        let bad = match c.ledger.get(&id) {
            Some(o) => o.state == ObjState::Dropped,
            None => true,
        };
        if bad {
            c.ledger_errors.push(format!("{} on dead or unknown object {}", what, id));
        }
    });
}

/// A closure was handed something the model does not expect. Under logic-error keys the
/// model means nothing, so this is not evidence there.
pub fn note_expectation(msg: String) {
    if CTX.with(|c| {
        let c = c.borrow();
        c.chaos.is_some() || c.structural
    }) {
        return;
    }
    note_error(msg)
}

pub fn note_error(msg: String) {
    let _g = HarnessGuard::new();
    CTX.with(|c| c.borrow_mut().ledger_errors.push(msg));
}

pub fn take_errors() -> Vec<String> {
    CTX.with(|c| std::mem::take(&mut c.borrow_mut().ledger_errors))
}

pub fn with<R>(f: impl FnOnce(&mut Ctx) -> R) -> R {
    let _g = HarnessGuard::new();
    CTX.with(|c| f(&mut c.borrow_mut()))
}
