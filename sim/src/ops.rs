//! The explicit schedule of one run: configuration + operations (+ faults embedded in the
//! operations that carry them). This is what a replay file contains and what the minimiser
//! edits. Arguments that depend on the state of the system under test are *symbolic*
//! (`Arg`, `KeySel`, `Pred`) and are resolved deterministically at execution time, so that
//! generation never has to look at the system under test.

use crate::elems::ElemClass;
use crate::hasher::HashMode;
use serde::{Deserialize, Serialize};

#[derive(Clone, Debug, PartialEq, Serialize, Deserialize)]
pub struct HasherCfg {
    pub seed: u64,
    pub mode: HashMode,
}

#[derive(Clone, Debug, PartialEq, Serialize, Deserialize)]
pub struct Config {
    pub elem: ElemClass,
    pub universe: u32,
    /// hasher per map slot / set slot
    pub map_hashers: Vec<HasherCfg>,
    pub set_hashers: Vec<HasherCfg>,
    /// initial capacity per map slot / set slot
    pub map_cap0: Vec<usize>,
    pub set_cap0: Vec<usize>,
    /// full contents comparison every n steps (1 = after every step)
    pub full_check_every: u32,
    /// "logic-error keys": Hash and Eq of the keys are inconsistent over time (as with a key
    /// mutated while stored). `Some(seed)`: see `ctx::Chaos`.
    #[serde(default, skip_serializing_if = "Option::is_none")]
    pub chaos: Option<u64>,
}

/// A size argument, resolved against the target collection at execution time.
#[derive(Clone, Copy, Debug, PartialEq, Serialize, Deserialize)]
pub enum Arg {
    Abs(usize),
    /// capacity() - len() + d
    Free(i32),
    /// len() + d
    Len(i32),
    /// capacity() + d
    Cap(i32),
    TwoCap,
    /// usize::MAX - d
    NearMax(usize),
    /// isize::MAX as usize + d (d may be negative)
    NearIsize(i64),
    /// isize::MAX / size_of::<(K, V)>() + d
    NearElemMax(i64),
    /// A request that is valid arithmetic but above the simulator's allocation cap
    /// ("OOM-huge"): 2^27 + d elements.
    OomHuge(u32),
}

/// A key, possibly chosen by where it lives (resolved through the hook; choice only).
#[derive(Clone, Copy, Debug, PartialEq, Serialize, Deserialize)]
pub enum KeySel {
    Kv(u32),
    /// The present key with this rank among those in the old table (by cached-iterator rank);
    /// falls back to `Kv` of the second field.
    Old(u32, u32),
    /// The present key with this rank among those in the main table.
    Main(u32, u32),
}

/// A predicate over keys for retain / drain_filter.
#[derive(Clone, Copy, Debug, PartialEq, Serialize, Deserialize)]
pub enum Pred {
    None,
    All,
    /// true for keys with splitmix(seed ^ kv) % 100 < pct
    Mask(u64, u8),
    /// true exactly for the elements currently in the old table
    OldOnly,
    /// true exactly for the elements currently in the main table
    MainOnly,
}

/// How far a lazy operation is consumed before it is cancelled.
#[derive(Clone, Copy, Debug, PartialEq, Serialize, Deserialize)]
pub enum Consume {
    All,
    DropAfter(u32),
    ForgetAfter(u32),
}

#[derive(Clone, Copy, Debug, PartialEq, Serialize, Deserialize)]
pub enum Lookup {
    FromKey,
    FromKeyHashedNocheck,
    FromHash,
}

/// One step of an `Entry` method chain.
#[derive(Clone, Copy, Debug, PartialEq, Serialize, Deserialize)]
pub enum EStep {
    // on Entry
    OrInsert,
    OrInsertWith,
    OrInsertWithKey,
    OrDefault,
    Key,
    InsertE,
    AndModify,
    AndReplaceSome,
    AndReplaceNone,
    // on OccupiedEntry (entered implicitly by matching)
    OccKey,
    OccGet,
    OccGetMut,
    OccInsert,
    OccIntoMut,
    OccRemove,
    OccRemoveEntry,
    OccReplaceEntry,
    OccReplaceKey,
    OccReplaceWithSome,
    OccReplaceWithNone,
    // on VacantEntry
    VacKey,
    VacIntoKey,
    VacInsert,
}

/// One step of a `RawEntryMut` method chain.
#[derive(Clone, Copy, Debug, PartialEq, Serialize, Deserialize)]
pub enum RStep {
    // on RawEntryMut
    Insert,
    OrInsert,
    OrInsertWith,
    AndModify,
    AndReplaceSome,
    AndReplaceNone,
    // on RawOccupiedEntryMut
    OccKey,
    OccKeyMut,
    OccIntoKey,
    OccGet,
    OccGetMut,
    OccIntoMut,
    OccGetKeyValue,
    OccGetKeyValueMut,
    OccIntoKeyValue,
    OccInsert,
    OccInsertKey,
    OccRemove,
    OccRemoveEntry,
    OccReplaceWithSome,
    OccReplaceWithNone,
    // on RawVacantEntryMut
    VacInsert,
    VacInsertHashedNocheck,
    VacInsertWithHasher,
}

#[derive(Clone, Copy, Debug, PartialEq, Serialize, Deserialize)]
pub enum IterKind {
    Iter,
    IterMut,
    Keys,
    Values,
    ValuesMut,
    RefIntoIter,
    MutIntoIter,
}

#[derive(Clone, Copy, Debug, PartialEq, Serialize, Deserialize)]
pub enum SetAlg {
    Union,
    Intersection,
    Difference,
    SymmetricDifference,
    BitOr,
    BitAnd,
    BitXor,
    Sub,
    IsSubset,
    IsSuperset,
    IsDisjoint,
    Eq,
}

/// An operation. `m` / `s` fields are map / set slot numbers.
#[derive(Clone, Debug, PartialEq, Serialize, Deserialize)]
pub enum Op {
    // ---- map: basic
    Insert { m: u8, k: KeySel, p: u32 },
    Get { m: u8, k: KeySel },
    GetMut { m: u8, k: KeySel, p: u32 },
    GetKeyValue { m: u8, k: KeySel },
    GetKeyValueMut { m: u8, k: KeySel, p: u32 },
    ContainsKey { m: u8, k: KeySel },
    Index { m: u8, k: KeySel },
    Remove { m: u8, k: KeySel },
    RemoveEntry { m: u8, k: KeySel },
    Clear { m: u8 },
    /// `hint`: what the iterator claims in size_hint(): 0 honest, 1 (0, None), 2 half,
    /// 3 (usize::MAX, None), 4 twice as many plus 7 (fault kind "lying size hint")
    Extend {
        m: u8,
        items: Vec<(u32, u32)>,
        by_ref: bool,
        #[serde(default)]
        hint: u8,
    },
    FromIter {
        m: u8,
        items: Vec<(u32, u32)>,
        /// size-hint lie mode as for `Extend`
        #[serde(default)]
        hint: u8,
    },
    IterMutWrite { m: u8, mask: u64, pct: u8, p: u32, values_mut: bool },
    // ---- map: handles
    Entry { m: u8, k: KeySel, chain: Vec<EStep>, p: u32 },
    RawMut { m: u8, k: KeySel, how: Lookup, chain: Vec<RStep>, p: u32 },
    RawGet { m: u8, k: KeySel, how: Lookup },
    // ---- map: phase movers and lazy operations
    Retain { m: u8, pred: Pred, mutate: Option<u32> },
    DrainFilter {
        m: u8,
        pred: Pred,
        mutate: Option<u32>,
        consume: Consume,
        /// fault: the n-th destructor of a removed value run by the collection panics
        #[serde(default)]
        drop_panic: Option<u32>,
    },
    Drain { m: u8, consume: Consume },
    IntoIter { m: u8, consume: Consume, new_cap: usize },
    Reserve { m: u8, n: Arg },
    TryReserve { m: u8, n: Arg, oom: bool },
    ShrinkTo { m: u8, n: Arg },
    ShrinkToFit { m: u8 },
    WithCapacity { m: u8, n: usize },
    CloneTo { src: u8, dst: u8 },
    CloneFrom { src: u8, dst: u8 },
    // ---- map: observers
    IterCheck { m: u8, kind: IterKind, clone_at: Option<u32> },
    EqCheck { a: u8, b: u8 },
    DebugCheck { m: u8 },
    /// C16: serialise map `m` to tokens, compare with len()+iter(), deserialise, compare.
    SerdeMap { m: u8 },
    /// C16: same for set `s`; then deserialize_in_place into set `dst` from a stream whose
    /// size hint lies (`hint`: 0 = honest, 1 = None, 2 = zero, 3 = too small, 4 = usize::MAX)
    /// and which optionally fails at element `fail_at`.
    SerdeSet { s: u8, dst: u8, hint: u8, fail_at: Option<u32> },
    /// C04 probe: insert capacity()-len() fresh keys (at most `max`).
    Probe { m: u8, max: u32 },
    // ---- sets
    SInsert { s: u8, k: KeySel },
    SReplace { s: u8, k: KeySel },
    SRemove { s: u8, k: KeySel },
    STake { s: u8, k: KeySel },
    SGet { s: u8, k: KeySel },
    SContains { s: u8, k: KeySel },
    SGetOrInsert { s: u8, k: KeySel },
    SGetOrInsertOwned { s: u8, k: KeySel },
    SGetOrInsertWith { s: u8, k: KeySel },
    SRetain { s: u8, pred: Pred },
    SDrain { s: u8, consume: Consume },
    SDrainFilter {
        s: u8,
        pred: Pred,
        consume: Consume,
        #[serde(default)]
        drop_panic: Option<u32>,
    },
    SIntoIter { s: u8, consume: Consume, new_cap: usize },
    SExtend {
        s: u8,
        items: Vec<u32>,
        by_ref: bool,
        #[serde(default)]
        hint: u8,
    },
    SFromIter {
        s: u8,
        items: Vec<u32>,
        #[serde(default)]
        hint: u8,
    },
    SClear { s: u8 },
    SReserve { s: u8, n: Arg },
    STryReserve { s: u8, n: Arg, oom: bool },
    SShrinkTo { s: u8, n: Arg },
    SShrinkToFit { s: u8 },
    SCloneTo { src: u8, dst: u8 },
    SCloneFrom { src: u8, dst: u8 },
    SAlgebra { a: u8, b: u8, alg: SetAlg },
    SIterCheck { s: u8, clone_at: Option<u32> },
    SDebugCheck { s: u8 },
    SProbe { s: u8, max: u32 },
}

impl Op {
    /// Short kind name (for coverage keys, known-finding matching and op families).
    pub fn kind(&self) -> &'static str {
        match self {
            Op::Insert { .. } => "insert",
            Op::Get { .. } => "get",
            Op::GetMut { .. } => "get_mut",
            Op::GetKeyValue { .. } => "get_key_value",
            Op::GetKeyValueMut { .. } => "get_key_value_mut",
            Op::ContainsKey { .. } => "contains_key",
            Op::Index { .. } => "index",
            Op::Remove { .. } => "remove",
            Op::RemoveEntry { .. } => "remove_entry",
            Op::Clear { .. } => "clear",
            Op::Extend { .. } => "extend",
            Op::FromIter { .. } => "from_iter",
            Op::IterMutWrite { .. } => "iter_mut_write",
            Op::Entry { .. } => "entry",
            Op::RawMut { .. } => "raw_entry_mut",
            Op::RawGet { .. } => "raw_entry",
            Op::Retain { .. } => "retain",
            Op::DrainFilter { .. } => "drain_filter",
            Op::Drain { .. } => "drain",
            Op::IntoIter { .. } => "into_iter",
            Op::Reserve { .. } => "reserve",
            Op::TryReserve { .. } => "try_reserve",
            Op::ShrinkTo { .. } => "shrink_to",
            Op::ShrinkToFit { .. } => "shrink_to_fit",
            Op::WithCapacity { .. } => "with_capacity",
            Op::CloneTo { .. } => "clone",
            Op::CloneFrom { .. } => "clone_from",
            Op::IterCheck { .. } => "iter_check",
            Op::EqCheck { .. } => "eq_check",
            Op::DebugCheck { .. } => "debug_check",
            Op::SerdeMap { .. } => "serde_map",
            Op::SerdeSet { .. } => "serde_set",
            Op::Probe { .. } => "probe",
            Op::SInsert { .. } => "set_insert",
            Op::SReplace { .. } => "set_replace",
            Op::SRemove { .. } => "set_remove",
            Op::STake { .. } => "set_take",
            Op::SGet { .. } => "set_get",
            Op::SContains { .. } => "set_contains",
            Op::SGetOrInsert { .. } => "set_get_or_insert",
            Op::SGetOrInsertOwned { .. } => "set_get_or_insert_owned",
            Op::SGetOrInsertWith { .. } => "set_get_or_insert_with",
            Op::SRetain { .. } => "set_retain",
            Op::SDrain { .. } => "set_drain",
            Op::SDrainFilter { .. } => "set_drain_filter",
            Op::SIntoIter { .. } => "set_into_iter",
            Op::SExtend { .. } => "set_extend",
            Op::SFromIter { .. } => "set_from_iter",
            Op::SClear { .. } => "set_clear",
            Op::SReserve { .. } => "set_reserve",
            Op::STryReserve { .. } => "set_try_reserve",
            Op::SShrinkTo { .. } => "set_shrink_to",
            Op::SShrinkToFit { .. } => "set_shrink_to_fit",
            Op::SCloneTo { .. } => "set_clone",
            Op::SCloneFrom { .. } => "set_clone_from",
            Op::SAlgebra { .. } => "set_algebra",
            Op::SIterCheck { .. } => "set_iter_check",
            Op::SDebugCheck { .. } => "set_debug_check",
            Op::SProbe { .. } => "set_probe",
        }
    }
}

/// A panic injected at the `nth` user callback performed by operation `at`.
#[derive(Clone, Copy, Debug, PartialEq, Serialize, Deserialize)]
pub struct Fault {
    pub at: usize,
    pub nth: u64,
    /// `Some(Drop)`: `nth` counts only destructor runs of stored objects inside the operation
    #[serde(default, skip_serializing_if = "Option::is_none")]
    pub site: Option<crate::ctx::Site>,
}

#[derive(Clone, Debug, PartialEq, Serialize, Deserialize)]
pub struct RunSpec {
    pub cfg: Config,
    pub ops: Vec<Op>,
    pub faults: Vec<Fault>,
    /// None: the operations are one history. Some("enum-chains") / Some("enum-prefixes"):
    /// the operations build a state, and an enumerated family of continuations is applied to
    /// it, each from a rebuilt copy (faults[0].at then selects one continuation for replay).
    #[serde(default)]
    pub mode: Option<String>,
}
