//! C10: capacity-management contracts, including at the usize limits.
//!
//! A seeded history drives one map into some state (any resize phase). Then every argument of
//! the boundary set is applied to reserve / try_reserve / try_reserve with a failing allocator
//! / shrink_to, each from that same state (the state is rebuilt whenever an application
//! changed it), followed by the fill-to-capacity probe and a full contents comparison.

use crate::elems::{ElemClass, KeyT, ValT};
use crate::ops::*;
use crate::props::{owns, Prop};
use crate::rng::splitmix64;
use crate::run::{begin_run, kind_hash, RunOutcome};
use crate::world::*;

fn rebuild<K: KeyT, V: ValT>(spec: &RunSpec) -> Option<World<K, V>> {
    begin_run();
    let mut w: World<K, V> = World::new(&spec.cfg);
    for (i, op) in spec.ops.iter().enumerate() {
        let so = w.exec(i, op, None, false);
        if so.fatal || so.injected.is_some() {
            std::mem::forget(w);
            return None;
        }
    }
    Some(w)
}

fn arg_class(a: &Arg) -> u64 {
    match a {
        Arg::Abs(x) if *x <= 1 => 1,
        Arg::Abs(x) if *x <= 64 => 2,
        Arg::Abs(_) => 3,
        Arg::Free(d) => (4 + (*d + 1)) as u64,
        Arg::Len(_) => 7,
        Arg::Cap(_) => 8,
        Arg::TwoCap => 9,
        Arg::NearMax(_) => 10,
        Arg::NearIsize(d) => {
            if *d < 0 {
                11
            } else {
                12
            }
        }
        Arg::NearElemMax(d) => {
            if *d < 0 {
                13
            } else {
                14
            }
        }
        Arg::OomHuge(_) => 15,
    }
}

/// The enumerated argument set for a state with `len` elements.
pub fn boundary_args(len: usize, full: bool) -> Vec<Arg> {
    let mut v = vec![Arg::Abs(0), Arg::Abs(1), Arg::Free(-1), Arg::Free(0), Arg::Free(1), Arg::Len(0), Arg::Cap(0), Arg::TwoCap, Arg::Abs(4096), Arg::OomHuge(0), Arg::OomHuge(977)];
    let dmax = len + 2 * ((len + 7) / 8) + 2;
    let ds: Vec<usize> = if full || dmax <= 24 {
        (0..=dmax).collect()
    } else {
        // all of the first 12 and last 12 offsets, every third in between
        let mut d: Vec<usize> = (0..12).collect();
        d.extend((12..dmax - 12).step_by(3));
        d.extend(dmax - 12..=dmax);
        d
    };
    for &d in &ds {
        v.push(Arg::NearMax(d));
        v.push(Arg::NearIsize(d as i64));
        v.push(Arg::NearIsize(-(d as i64)));
        v.push(Arg::NearElemMax(d as i64));
        v.push(Arg::NearElemMax(-(d as i64)));
    }
    v
}

pub fn run_c10<K: KeyT, V: ValT>(spec: &RunSpec, thorough: bool) -> RunOutcome {
    let mut out = RunOutcome::default();
    let n = spec.ops.len();
    let mut w: World<K, V> = match rebuild(spec) {
        Some(w) => w,
        None => return out,
    };
    let m = 0u8;
    let st0 = w.maps[0].m.verif_state();
    out.nontrivial = st0.split;
    let len0 = w.maps[0].m.len();
    let args = boundary_args(len0, thorough);
    let hmode = spec.cfg.map_hashers[0].mode as u8;
    let mut fresh = true;
    // explicit replay: faults[0].at selects the application (index into the enumeration)
    let only: Option<usize> = spec.faults.first().map(|f| f.at);
    let mut app = 0usize;
    let mut kinds: Vec<Op> = Vec::new();
    for a in &args {
        let huge_or_oom = !matches!(a, Arg::Abs(_) | Arg::Free(_) | Arg::Len(_) | Arg::Cap(_) | Arg::TwoCap);
        if !matches!(a, Arg::OomHuge(_)) {
            kinds.push(Op::Reserve { m, n: *a });
        }
        kinds.push(Op::TryReserve { m, n: *a, oom: false });
        if !huge_or_oom {
            kinds.push(Op::TryReserve { m, n: *a, oom: true });
        }
        kinds.push(Op::ShrinkTo { m, n: *a });
    }
    kinds.push(Op::ShrinkToFit { m });
    // the same contracts on HashSet (its capacity-management methods are separate wrappers)
    if !w.sets.is_empty() {
        for a in &args {
            let huge_or_oom = !matches!(a, Arg::Abs(_) | Arg::Free(_) | Arg::Len(_) | Arg::Cap(_) | Arg::TwoCap);
            // every third boundary argument is enough here: the arithmetic is shared with the map
            if huge_or_oom && !matches!(a, Arg::NearMax(d) if *d % 3 == 0) && !matches!(a, Arg::NearIsize(d) | Arg::NearElemMax(d) if *d % 7 == 0) {
                continue;
            }
            if !matches!(a, Arg::OomHuge(_)) {
                kinds.push(Op::SReserve { s: 0, n: *a });
            }
            kinds.push(Op::STryReserve { s: 0, n: *a, oom: false });
            if !huge_or_oom {
                kinds.push(Op::STryReserve { s: 0, n: *a, oom: true });
            }
            kinds.push(Op::SShrinkTo { s: 0, n: *a });
        }
        kinds.push(Op::SShrinkToFit { s: 0 });
    }
    if !K::CLASS.is_zst() {
        for c in [0usize, 1, 2, 3, 4, 7, 8, 14, 15, 28, 29, 100, 1000] {
            kinds.push(Op::WithCapacity { m, n: c });
        }
    }
    for op in kinds.iter() {
        if only.is_none() && crate::past_deadline() {
            break;
        }
        let this = app;
        app += 1;
        if let Some(o) = only {
            if o != this {
                continue;
            }
        }
        if !fresh {
            // release the used copy completely before the ledger is reset for the next one
            let old = std::mem::replace(&mut w, World::new(&Config { map_hashers: vec![], set_hashers: vec![], map_cap0: vec![], set_cap0: vec![], ..spec.cfg.clone() }));
            let _ = old.teardown(n + 2, false);
            let _ = crate::ctx::take_errors();
            w = match rebuild(spec) {
                Some(w) => w,
                None => return out,
            };
        }
        let is_set = op.kind().starts_with("set_");
        let before = if is_set { w.sets[0].s.verif_state() } else { w.maps[0].m.verif_state() };
        let (cap_b, len_b) = if is_set { (w.sets[0].s.capacity(), w.sets[0].s.len()) } else { (w.maps[0].m.capacity(), w.maps[0].m.len()) };
        let so = w.exec(n, op, None, false);
        out.steps += 1;
        out.op_kinds.push(op.kind());
        if so.oom_fired > 0 {
            *out.faults.entry("alloc-failure".to_string()).or_insert(0) += so.oom_fired;
        }
        let a_cls = match op {
            Op::Reserve { n, .. } | Op::TryReserve { n, .. } | Op::ShrinkTo { n, .. } | Op::SReserve { n, .. } | Op::STryReserve { n, .. } | Op::SShrinkTo { n, .. } => arg_class(n),
            _ => 0,
        };
        if matches!(op, Op::Reserve { n, .. } | Op::TryReserve { n, .. } if arg_class(n) >= 10 && arg_class(n) <= 14) {
            *out.faults.entry("size-overflow-request".to_string()).or_insert(0) += 1;
        }
        if before.split {
            out.states.push(splitmix64(kind_hash(op.kind()) ^ abstract_state(&before).wrapping_mul(0x9E37_79B9_7F4A_7C15) ^ (a_cls << 40) ^ ((K::CLASS as u64) << 56) ^ ((hmode as u64) << 60)));
        }
        for p in &so.probes {
            out.probes.push(p);
        }
        let mut anomalies = so.anomalies;
        let mut fatal = so.fatal;
        if !fatal {
            anomalies.extend(w.check_contents(n, op.kind(), family_of(op), true));
            // every outcome is followed by the fill probe (reserve: the next n keys go in without
            // reallocation; shrink and failed calls: headroom still intact)
            let probe = if is_set { Op::SProbe { s: 0, max: 5000 } } else { Op::Probe { m, max: 5000 } };
            let (after, cap_a, len_a) = if is_set { (w.sets[0].s.verif_state(), w.sets[0].s.capacity(), w.sets[0].s.len()) } else { (w.maps[0].m.verif_state(), w.maps[0].m.capacity(), w.maps[0].m.len()) };
            let unchanged = after == before && cap_a == cap_b && len_a == len_b;
            let failed = so.res.starts_with("Err") || so.res.starts_with("panic") || so.res == "skipped";
            if unchanged && failed {
                // nothing happened: the same state serves the next argument
                fresh = true;
            } else {
                let sp = w.exec(n + 1, &probe, None, false);
                out.steps += 1;
                anomalies.extend(sp.anomalies);
                fatal |= sp.fatal;
                if !fatal {
                    anomalies.extend(w.check_contents(n + 1, "probe", Family::Probe, false));
                }
                fresh = false;
            }
        } else {
            fresh = false;
        }
        let mut stop = fatal;
        for a in anomalies {
            if owns(Prop::C10, &a) {
                if out.violation.is_none() {
                    let mut a = a;
                    a.detail = format!("[application {} = {:?} in a state with len {} split {}] {}", this, op, len_b, before.split, a.detail);
                    out.violation = Some(a);
                    out.fault = Some(Fault { at: this, nth: 0, site: None });
                }
                stop = true;
            } else {
                if std::env::var("GSIM_DEBUG_FOREIGN").is_ok() {
                    eprintln!("foreign: {} {:?} {} :: {:?}", a.class, a.family, a.detail, op);
                }
                out.foreign.push(a.class);
            }
        }
        if stop {
            std::mem::forget(w);
            return out;
        }
    }
    let _ = w.teardown(n + 2, false);
    out
}
