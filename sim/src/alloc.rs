//! Seam S3: the allocator front. Wraps `System`, puts a 16-byte header in front of every
//! block (size + tag), counts allocations made inside a SUT window ("tagged" = made by
//! griddle/hashbrown on behalf of a collection, i.e. backing tables), can simulate OOM for
//! one request, and refuses any tagged request above a hard cap so that generated sizes
//! can never exhaust the machine.

use std::alloc::{GlobalAlloc, Layout, System};
use std::cell::Cell;

pub struct SimAlloc;

const MAGIC_TAGGED: u64 = 0x5349_4D41_4C4C_4F43; // "SIMALLOC"
const MAGIC_PLAIN: u64 = 0x706C_6169_6E5F_5F5F;
pub const HARD_CAP: usize = 64 << 20;

pub struct AllocState {
    /// >0 while griddle code runs on behalf of an operation.
    pub in_sut: Cell<u32>,
    /// >0 while harness callbacks (hash/eq/clone/drop/closures/ledger) run inside a window.
    pub harness: Cell<u32>,
    /// Tagged allocations since the window opened.
    pub win_allocs: Cell<u64>,
    /// Tagged deallocations since the window opened.
    pub win_frees: Cell<u64>,
    /// Largest tagged request since the window opened.
    pub win_max_req: Cell<usize>,
    /// Tagged blocks currently live.
    pub live: Cell<i64>,
    /// Tagged bytes currently live.
    pub live_bytes: Cell<i64>,
    /// Simulated OOM: fail the next tagged request of at least this many bytes.
    pub fail_at_least: Cell<usize>,
    /// How many requests were failed by the simulated OOM.
    pub oom_fired: Cell<u64>,
    /// How many tagged requests were refused because they exceeded the hard cap.
    pub cap_refused: Cell<u64>,
}

thread_local! {
    pub static ALLOC: AllocState = const { AllocState {
        in_sut: Cell::new(0),
        harness: Cell::new(0),
        win_allocs: Cell::new(0),
        win_frees: Cell::new(0),
        win_max_req: Cell::new(0),
        live: Cell::new(0),
        live_bytes: Cell::new(0),
        fail_at_least: Cell::new(usize::MAX),
        oom_fired: Cell::new(0),
        cap_refused: Cell::new(0),
    } };
}

#[inline]
fn header(align: usize) -> usize {
    if align > 16 {
        align
    } else {
        16
    }
}

unsafe impl GlobalAlloc for SimAlloc {
    unsafe fn alloc(&self, layout: Layout) -> *mut u8 {
        let tagged = ALLOC
            .try_with(|a| {
                if a.in_sut.get() > 0 && a.harness.get() == 0 {
                    if layout.size() > a.win_max_req.get() {
                        a.win_max_req.set(layout.size());
                    }
                    if layout.size() >= a.fail_at_least.get() {
                        a.fail_at_least.set(usize::MAX);
                        a.oom_fired.set(a.oom_fired.get() + 1);
                        return 2u8;
                    }
                    if layout.size() > HARD_CAP {
                        a.cap_refused.set(a.cap_refused.get() + 1);
                        return 2u8;
                    }
                    a.win_allocs.set(a.win_allocs.get() + 1);
                    a.live.set(a.live.get() + 1);
                    a.live_bytes.set(a.live_bytes.get() + layout.size() as i64);
                    1u8
                } else {
                    0u8
                }
            })
            .unwrap_or(0);
        if tagged == 2 {
            return core::ptr::null_mut();
        }
        let h = header(layout.align());
        let total = match layout.size().checked_add(h) {
            Some(t) => t,
            None => return core::ptr::null_mut(),
        };
        let inner = match Layout::from_size_align(total, h.max(layout.align())) {
            Ok(l) => l,
            Err(_) => return core::ptr::null_mut(),
        };
        let base = System.alloc(inner);
        if base.is_null() {
            return base;
        }
        let user = base.add(h);
        let words = user as *mut u64;
        words.sub(1).write(if tagged == 1 { MAGIC_TAGGED } else { MAGIC_PLAIN });
        words.sub(2).write(layout.size() as u64);
        user
    }

    unsafe fn dealloc(&self, ptr: *mut u8, layout: Layout) {
        let h = header(layout.align());
        let words = ptr as *mut u64;
        let magic = words.sub(1).read();
        let size = words.sub(2).read() as usize;
        if (magic != MAGIC_TAGGED && magic != MAGIC_PLAIN) || size != layout.size() {
            // Header smashed or a block freed with the wrong layout: memory corruption.
            let msg = b"SIMALLOC: corrupted or mismatched block header on dealloc\n";
            libc::write(2, msg.as_ptr() as *const _, msg.len());
            libc::abort();
        }
        if magic == MAGIC_TAGGED {
            let _ = ALLOC.try_with(|a| {
                a.win_frees.set(a.win_frees.get() + 1);
                a.live.set(a.live.get() - 1);
                a.live_bytes.set(a.live_bytes.get() - size as i64);
            });
        }
        words.sub(1).write(0);
        let inner = Layout::from_size_align_unchecked(size + h, h.max(layout.align()));
        System.dealloc(ptr.sub(h), inner);
    }
}

/// RAII: harness code running inside a SUT window (its allocations are not the SUT's).
pub struct HarnessGuard;
impl HarnessGuard {
    #[inline]
    pub fn new() -> Self {
        ALLOC.with(|a| a.harness.set(a.harness.get() + 1));
        HarnessGuard
    }
}
impl Drop for HarnessGuard {
    #[inline]
    fn drop(&mut self) {
        ALLOC.with(|a| a.harness.set(a.harness.get() - 1));
    }
}

#[derive(Clone, Copy, Debug, Default)]
pub struct WinStats {
    pub allocs: u64,
    pub frees: u64,
    pub max_req: usize,
    pub oom_fired: u64,
    pub cap_refused: u64,
}

pub fn window_open() {
    ALLOC.with(|a| {
        a.win_allocs.set(0);
        a.win_frees.set(0);
        a.win_max_req.set(0);
        a.oom_fired.set(0);
        a.cap_refused.set(0);
        a.in_sut.set(a.in_sut.get() + 1);
    });
}

pub fn window_close() -> WinStats {
    ALLOC.with(|a| {
        a.in_sut.set(a.in_sut.get().saturating_sub(1));
        a.fail_at_least.set(usize::MAX);
        WinStats {
            allocs: a.win_allocs.get(),
            frees: a.win_frees.get(),
            max_req: a.win_max_req.get(),
            oom_fired: a.oom_fired.get(),
            cap_refused: a.cap_refused.get(),
        }
    })
}

pub fn arm_oom(at_least: usize) {
    ALLOC.with(|a| a.fail_at_least.set(at_least));
}

pub fn live_tables() -> i64 {
    ALLOC.with(|a| a.live.get())
}

pub fn reset_run() {
    ALLOC.with(|a| {
        a.in_sut.set(0);
        a.harness.set(0);
        a.live.set(0);
        a.live_bytes.set(0);
        a.fail_at_least.set(usize::MAX);
    });
}
