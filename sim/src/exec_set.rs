//! Set operations (C13 and the set halves of C05/C06/C08/C09).

use crate::alloc;
use crate::ctx::{self, ObjState};
use crate::elems::{ElemClass, KeyT, ValT};
use crate::exec::*;
use crate::exec_map::two_mut;
use crate::hasher::SimHasher;
use crate::ops::*;
use crate::world::*;
use griddle::hash_map::{VerifLoc, VerifState};
use std::any::Any;
use std::collections::{BTreeMap, BTreeSet};

fn tables_of(st: &VerifState) -> i64 {
    (st.main_buckets > 1) as i64 + st.split as i64
}

fn rearm(st: &VerifState) -> Option<u64> {
    if st.split && st.old_len > 0 {
        Some(((st.old_len + st.r - 1) / st.r.max(1)) as u64)
    } else {
        None
    }
}

impl<K: KeyT> SetSlot<K> {
    pub fn resolve_key(&self, k: &KeySel) -> u32 {
        match *k {
            KeySel::Kv(kv) => kv,
            KeySel::Old(rank, fb) | KeySel::Main(rank, fb) => {
                let want_old = matches!(k, KeySel::Old(..));
                let st = self.s.verif_state();
                if want_old && !st.split {
                    return fb;
                }
                let n = self.model.len();
                if n == 0 {
                    return fb;
                }
                let start = (rank as usize).wrapping_mul(7) % n;
                let mut found: Vec<(usize, u32)> = Vec::new();
                for (i, (&kv, _)) in self.model.iter().cycle().skip(start).take(n.min(48)).enumerate() {
                    let probe = K::probe(kv);
                    match self.s.verif_locate(&probe) {
                        VerifLoc::Old { rank: r, .. } if want_old => found.push((r.unwrap_or(usize::MAX - i), kv)),
                        VerifLoc::Main if !want_old => found.push((i, kv)),
                        _ => {}
                    }
                }
                if found.is_empty() {
                    return fb;
                }
                found.sort();
                found[(rank as usize) % found.len()].1
            }
        }
    }

    pub fn eval_pred(&self, pred: &Pred) -> BTreeSet<u32> {
        let mut s = BTreeSet::new();
        for (&kv, _) in self.model.iter() {
            let t = match *pred {
                Pred::None => false,
                Pred::All => true,
                Pred::Mask(seed, pct) => pred_mask(seed, pct, kv),
                Pred::OldOnly | Pred::MainOnly => {
                    let probe = K::probe(kv);
                    let in_old = matches!(self.s.verif_locate(&probe), VerifLoc::Old { .. });
                    in_old == matches!(pred, Pred::OldOnly)
                }
            };
            if t {
                s.insert(kv);
            }
        }
        s
    }

    fn in_old(&self, kv: u32) -> bool {
        let probe = K::probe(kv);
        matches!(self.s.verif_locate(&probe), VerifLoc::Old { .. })
    }
}

fn mark_forgotten(ids: impl Iterator<Item = u64>) {
    ctx::with(|c| {
        c.zst_slack = true;
        for id in ids {
            if id != 0 {
                if let Some(o) = c.ledger.get_mut(&id) {
                    if o.state == ObjState::Live {
                        o.state = ObjState::Forgotten;
                    }
                }
            }
        }
    });
}

impl<K: KeyT, V: ValT> World<K, V> {
    pub(crate) fn dispatch_set(&mut self, acc: &mut Acc, op: &Op) {
        match op {
            Op::SInsert { s, k } | Op::SReplace { s, k } | Op::SGetOrInsert { s, k } | Op::SGetOrInsertOwned { s, k } | Op::SGetOrInsertWith { s, k } => {
                let si = *s as usize;
                let kv = self.sets[si].resolve_key(k);
                let before = self.sets[si].s.verif_state();
                let present = self.sets[si].model.get(&kv).copied();
                let slot = &mut self.sets[si];
                let mut wrong: Option<String> = None;
                let mut new_kid: Option<u64> = None;
                let co = call(|| match op {
                    Op::SInsert { .. } => {
                        let key = K::make(kv);
                        new_kid = Some(key.oid());
                        let r = sut(|| slot.s.insert(key));
                        if r != present.is_none() {
                            wrong = Some(format!("set insert({}) = {} expected {}", kv, r, present.is_none()));
                        }
                        if present.is_some() {
                            new_kid = None;
                        }
                        format!("{}", r)
                    }
                    Op::SReplace { .. } => {
                        let key = K::make(kv);
                        new_kid = Some(key.oid());
                        let r = sut(|| slot.s.replace(key));
                        match (&r, present) {
                            (Some(old), Some(kid)) => {
                                old.check("set replace");
                                if old.kv() != kv || (old.oid() != 0 && old.oid() != kid) {
                                    wrong = Some(format!("set replace({}) returned {} id {} expected id {}", kv, old.kv(), old.oid(), kid));
                                }
                            }
                            (None, None) => {}
                            (a, b) => wrong = Some(format!("set replace({}): is_some={} expected is_some={}", kv, a.is_some(), b.is_some())),
                        }
                        format!("{}", r.is_some())
                    }
                    _ => {
                        let made: std::cell::Cell<Option<u64>> = std::cell::Cell::new(None);
                        let r: &K = match op {
                            Op::SGetOrInsert { .. } => {
                                let key = K::make(kv);
                                made.set(Some(key.oid()));
                                sut(|| slot.s.get_or_insert(key))
                            }
                            Op::SGetOrInsertOwned { .. } => {
                                let probe = K::probe(kv);
                                let r = sut(|| slot.s.get_or_insert_owned(&probe));
                                // the probe must outlive nothing: `r` borrows only the set
                                unsafe { &*(r as *const K) }
                            }
                            _ => {
                                let probe = K::probe(kv);
                                let r = sut(|| {
                                    slot.s.get_or_insert_with(&probe, |q| {
                                        closure_body(|| {
                                            let key = K::make(q.kv());
                                            made.set(Some(key.oid()));
                                            key
                                        })
                                    })
                                });
                                unsafe { &*(r as *const K) }
                            }
                        };
                        r.check("get_or_insert*");
                        match present {
                            Some(kid) => {
                                if r.kv() != kv || (r.oid() != 0 && r.oid() != kid) {
                                    wrong = Some(format!("get_or_insert*({}) on a present element returned {} id {} expected id {}", kv, r.kv(), r.oid(), kid));
                                }
                            }
                            None => {
                                if r.kv() != kv || (r.oid() != 0 && made.get().is_some() && Some(r.oid()) != made.get()) {
                                    wrong = Some(format!("get_or_insert*({}) on an absent element returned {} id {}", kv, r.kv(), r.oid()));
                                }
                                new_kid = Some(r.oid());
                            }
                        }
                        format!("{}", r.kv())
                    }
                });
                let stats = (co.hashes, co.alloc.allocs);
                match co.result {
                    Ok(sres) => {
                        acc.out.res = sres;
                        if let Some(w) = wrong {
                            acc.wrong(w);
                        }
                        match op {
                            Op::SReplace { .. } => {
                                slot.model.insert(kv, new_kid.unwrap_or(0));
                            }
                            _ => {
                                if present.is_none() {
                                    slot.model.insert(kv, new_kid.unwrap_or(0));
                                }
                            }
                        }
                        let cost = if present.is_none() || matches!(op, Op::SInsert { .. }) { Cost::KeyAdding } else { Cost::Constant };
                        self.post_set(acc, si, before, stats, cost, present.is_none(), 0, false);
                    }
                    Err(pn) => self.handle_panic(acc, pn, &[]),
                }
            }
            Op::SRemove { s, k } | Op::STake { s, k } | Op::SGet { s, k } | Op::SContains { s, k } => {
                let si = *s as usize;
                let kv = self.sets[si].resolve_key(k);
                let before = self.sets[si].s.verif_state();
                let present = self.sets[si].model.get(&kv).copied();
                let removing = matches!(op, Op::SRemove { .. } | Op::STake { .. });
                let was_old = removing && present.is_some() && self.sets[si].in_old(kv);
                let probe = K::probe(kv);
                let slot = &mut self.sets[si];
                let mut wrong: Option<String> = None;
                let co = call(|| match op {
                    Op::SRemove { .. } => {
                        let r = sut(|| slot.s.remove(&probe));
                        if r != present.is_some() {
                            wrong = Some(format!("set remove({}) = {} expected {}", kv, r, present.is_some()));
                        }
                        format!("{}", r)
                    }
                    Op::STake { .. } => {
                        let r = sut(|| slot.s.take(&probe));
                        match (&r, present) {
                            (Some(x), Some(kid)) => {
                                x.check("set take");
                                if x.kv() != kv || (x.oid() != 0 && x.oid() != kid) {
                                    wrong = Some(format!("set take({}) returned {} id {} expected id {}", kv, x.kv(), x.oid(), kid));
                                }
                            }
                            (None, None) => {}
                            (a, b) => wrong = Some(format!("set take({}): is_some={} expected is_some={}", kv, a.is_some(), b.is_some())),
                        }
                        format!("{}", r.is_some())
                    }
                    Op::SGet { .. } => {
                        let r = sut(|| slot.s.get(&probe));
                        match (r, present) {
                            (Some(x), Some(kid)) => {
                                x.check("set get");
                                if x.kv() != kv || (x.oid() != 0 && x.oid() != kid) {
                                    wrong = Some(format!("set get({}) returned {} id {} expected id {}", kv, x.kv(), x.oid(), kid));
                                }
                            }
                            (None, None) => {}
                            (a, b) => wrong = Some(format!("set get({}): is_some={} expected is_some={}", kv, a.is_some(), b.is_some())),
                        }
                        format!("{}", r.is_some())
                    }
                    _ => {
                        let r = sut(|| slot.s.contains(&probe));
                        if r != present.is_some() {
                            wrong = Some(format!("set contains({}) = {} expected {}", kv, r, present.is_some()));
                        }
                        format!("{}", r)
                    }
                });
                let stats = (co.hashes, co.alloc.allocs);
                match co.result {
                    Ok(sres) => {
                        acc.out.res = sres;
                        if let Some(w) = wrong {
                            acc.wrong(w);
                        }
                        if removing {
                            slot.model.remove(&kv);
                        }
                        self.post_set(acc, si, before, stats, Cost::Constant, false, was_old as usize, false);
                    }
                    Err(pn) => self.handle_panic(acc, pn, &[]),
                }
            }
            Op::SRetain { s, pred } => {
                let si = *s as usize;
                let before = self.sets[si].s.verif_state();
                let keep = self.sets[si].eval_pred(pred);
                let slot = &mut self.sets[si];
                let mut log: Vec<u32> = Vec::new();
                let co = call(|| {
                    sut(|| {
                        slot.s.retain(|k| {
                            closure_body(|| {
                                k.check("set retain");
                                log.push(k.kv());
                                keep.contains(&k.kv())
                            })
                        })
                    })
                });
                let stats = (co.hashes, co.alloc.allocs);
                match co.result {
                    Ok(()) => {
                        log.sort_unstable();
                        let want: Vec<u32> = slot.model.keys().copied().collect();
                        if log != want {
                            acc.anomaly("partition-mismatch", format!("set retain called the predicate on {:?}, elements present were {:?}", log, want));
                            acc.out.fatal = true;
                        }
                        slot.model.retain(|kv, _| keep.contains(kv));
                        acc.out.res = format!("kept {}", slot.model.len());
                        self.post_set(acc, si, before, stats, Cost::Exempt, false, 0, true);
                    }
                    Err(pn) => {
                        if let Panic::Injected(ctx::Site::Drop, _) = &pn {
                            acc.probe(if before.split && before.old_len > 0 { if K::CLASS.is_zst() { "retain-destructor-panicked-during-resize-zero-sized" } else { "retain-destructor-panicked-during-resize" } } else { "retain-destructor-panicked" });
                        }
                        self.handle_panic(acc, pn, &[])
                    }
                }
            }
            Op::SDrainFilter { s, pred, consume, drop_panic } => {
                let si = *s as usize;
                let drop_panic = if K::CLASS.has_drop() { *drop_panic } else { None };
                if let Some(n) = drop_panic {
            ctx::with(|c| c.drop_fuse = Some(n as u64));
        }
                let before = self.sets[si].s.verif_state();
                let take = self.sets[si].eval_pred(pred);
                let slot = &mut self.sets[si];
                let model = &slot.model;
                let mut log: Vec<u32> = Vec::new();
                let mut yielded: Vec<u32> = Vec::new();
                let mut wrong: Vec<String> = Vec::new();
                let limit = match consume {
                    Consume::All => usize::MAX,
                    Consume::DropAfter(k) | Consume::ForgetAfter(k) => *k as usize,
                };
                let co = call(|| {
                    let mut df = sut(|| {
                        slot.s.drain_filter(|k| {
                            closure_body(|| {
                                k.check("set drain_filter");
                                log.push(k.kv());
                                take.contains(&k.kv())
                            })
                        })
                    });
                    while yielded.len() < limit {
                        match sut(|| df.next()) {
                            Some(k) => {
                                k.check("set drain_filter yield");
                                match model.get(&k.kv()) {
                                    Some(&kid) if take.contains(&k.kv()) && !yielded.contains(&k.kv()) && (k.oid() == 0 || k.oid() == kid) => {}
                                    _ => wrong.push(format!("set drain_filter yielded {} unexpectedly", k.kv())),
                                }
                                yielded.push(k.kv());
                            }
                            None => break,
                        }
                    }
                    match consume {
                        Consume::ForgetAfter(_) => std::mem::forget(df),
                        _ => sut(|| drop(df)),
                    }
                });
                let stats = (co.hashes, co.alloc.allocs);
                ctx::with(|c| c.drop_fuse = None);
                let mut result = co.result;
                if let Err(Panic::Injected(ctx::Site::Drop, _)) = &result {
                    // the destructor of a removed element panicked while the early-dropped
                    // iterator was finishing its job: the job must have been finished anyway
                    acc.probe("set-drain_filter-drop-panicked-destructor");
                    result = Ok(());
                }
                match result {
                    Ok(()) => {
                        for w in wrong {
                            acc.anomaly("partition-mismatch", w);
                            acc.out.fatal = true;
                        }
                        let forget = matches!(consume, Consume::ForgetAfter(_));
                        let mut sorted = log.clone();
                        sorted.sort_unstable();
                        let all: Vec<u32> = slot.model.keys().copied().collect();
                        let dup = sorted.windows(2).any(|w| w[0] == w[1]);
                        if dup || sorted.iter().any(|k| !slot.model.contains_key(k)) || (!forget && sorted != all) {
                            acc.anomaly("partition-mismatch", format!("set drain_filter predicate call log {:?} vs elements {:?} (forget={})", sorted, all, forget));
                            acc.out.fatal = true;
                        }
                        let yset: BTreeSet<u32> = yielded.iter().copied().collect();
                        if matches!(consume, Consume::All) && yset.len() != slot.model.keys().filter(|k| take.contains(k)).count() {
                            acc.anomaly("partition-mismatch", format!("set drain_filter yielded {} elements, {} selected", yset.len(), take.len()));
                            acc.out.fatal = true;
                        }
                        slot.model.retain(|kv, _| if forget { !yset.contains(kv) } else { !take.contains(kv) });
                        let after = slot.s.verif_state();
                        if before.split && before.old_len > 0 && after.split && after.old_len == 0 {
                            acc.internal("progress-empty-old-kept", "set drain_filter emptied the old table without freeing it".to_string());
                        }
                        acc.out.res = format!("yielded {} left {}", yielded.len(), slot.model.len());
                        self.post_set(acc, si, before, stats, Cost::Exempt, false, 0, false);
                    }
                    Err(pn) => self.handle_panic(acc, pn, &[]),
                }
            }
            Op::SDrain { s, consume } | Op::SIntoIter { s, consume, .. } => {
                let si = *s as usize;
                let before = self.sets[si].s.verif_state();
                let into = matches!(op, Op::SIntoIter { .. });
                let new_cap = if let Op::SIntoIter { new_cap, .. } = op { *new_cap } else { 0 };
                let h = self.cfg.set_hashers[si].clone();
                let slot = &mut self.sets[si];
                let taken: Option<Set<K>> = if into { Some(std::mem::replace(&mut slot.s, new_set::<K>(&h, new_cap.min(1 << 12)))) } else { None };
                let model = std::mem::take(&mut slot.model);
                let total = model.len();
                let mut yielded: BTreeSet<u32> = BTreeSet::new();
                let mut wrong: Vec<String> = Vec::new();
                let limit = match consume {
                    Consume::All => usize::MAX,
                    Consume::DropAfter(k) | Consume::ForgetAfter(k) => *k as usize,
                };
                fn pump<I: Iterator + ExactSizeIterator>(mut it: I, total: usize, limit: usize, yielded: &mut BTreeSet<u32>, wrong: &mut Vec<String>, forget: bool, check: &dyn Fn(I::Item, &BTreeSet<u32>, &mut Vec<String>) -> u32) {
                    loop {
                        let remaining = total - yielded.len().min(total);
                        let (lo, hi) = sut(|| it.size_hint());
                        let l = sut(|| it.len());
                        if lo != remaining || hi != Some(remaining) || l != remaining {
                            wrong.push(format!("set drain/into_iter: size_hint=({},{:?}) len={} but {} remain", lo, hi, l, remaining));
                            break;
                        }
                        if yielded.len() >= limit {
                            break;
                        }
                        match sut(|| it.next()) {
                            Some(x) => {
                                let kv = check(x, yielded, wrong);
                                yielded.insert(kv);
                            }
                            None => {
                                if yielded.len() != total {
                                    wrong.push(format!("set drain/into_iter ended after {} of {}", yielded.len(), total));
                                }
                                for _ in 0..3 {
                                    if sut(|| it.next()).is_some() {
                                        wrong.push("set drain/into_iter yielded after None".to_string());
                                    }
                                }
                                break;
                            }
                        }
                    }
                    if forget {
                        std::mem::forget(it)
                    } else {
                        sut(|| drop(it))
                    }
                }
                let forget = matches!(consume, Consume::ForgetAfter(_));
                let chk = |k: K, yielded: &BTreeSet<u32>, wrong: &mut Vec<String>| -> u32 {
                    k.check("set drain yield");
                    match model.get(&k.kv()) {
                        Some(&kid) if !yielded.contains(&k.kv()) && (k.oid() == 0 || k.oid() == kid) => {}
                        _ => wrong.push(format!("set drain/into_iter yielded {} unexpectedly", k.kv())),
                    }
                    k.kv()
                };
                let co = call(|| match taken {
                    Some(old) => pump(sut(|| old.into_iter()), total, limit, &mut yielded, &mut wrong, forget, &chk),
                    None => pump(sut(|| slot.s.drain()), total, limit, &mut yielded, &mut wrong, forget, &chk),
                });
                let stats = (co.hashes, co.alloc.allocs);
                match co.result {
                    Ok(()) => {
                        for w in wrong {
                            acc.anomaly("iter-mismatch", w);
                            acc.out.fatal = true;
                        }
                        if forget {
                            self.account_forgotten(acc, tables_of(&before));
                            let ids: Vec<u64> = model.iter().filter(|(kv, _)| !yielded.contains(kv)).map(|(_, &kid)| kid).collect();
                            mark_forgotten(ids.into_iter());
                        }
                        let slot = &mut self.sets[si];
                        slot.countdown = None;
                        if !into {
                            let after = slot.s.verif_state();
                            if slot.s.len() != 0 {
                                acc.anomaly("iter-mismatch", format!("set not empty after drain: len()={}", slot.s.len()));
                                acc.out.fatal = true;
                            }
                            if after.split {
                                acc.internal("progress-empty-old-kept", "set drain left an old table allocated".to_string());
                            }
                            self.post_set(acc, si, before, stats, Cost::Exempt, false, 0, false);
                        }
                        acc.out.res = format!("consumed {} of {}", yielded.len(), total);
                    }
                    Err(pn) => self.handle_panic(acc, pn, &[]),
                }
            }
            Op::SExtend { s, items, by_ref, hint } => {
                let si = *s as usize;
                let hint = *hint;
                let before = self.sets[si].s.verif_state();
                let objs: Vec<K> = items.iter().map(|&kv| K::make(kv)).collect();
                let ids: Vec<u64> = objs.iter().map(|k| k.oid()).collect();
                let slot = &mut self.sets[si];
                let co = call(|| {
                    if *by_ref && K::CLASS == ElemClass::Plain {
                        if let (Some(ps), Some(po)) = ((&mut slot.s as &mut dyn Any).downcast_mut::<Set<u32>>(), (&objs as &dyn Any).downcast_ref::<Vec<u32>>()) {
                            sut(|| ps.extend(po.iter()));
                            return;
                        }
                    }
                    if hint == 0 {
                        sut(|| slot.s.extend(objs));
                    } else {
                        sut(|| slot.s.extend(LyingIter { inner: objs.into_iter(), hint }));
                    }
                });
                let stats = (co.hashes, co.alloc.allocs);
                match co.result {
                    Ok(()) => {
                        for (i, &kv) in items.iter().enumerate() {
                            slot.model.entry(kv).or_insert(ids[i]);
                        }
                        acc.out.res = format!("extended {}", items.len());
                        self.post_set(acc, si, before, stats, Cost::Exempt, false, 0, false);
                    }
                    Err(pn) => {
                        let doc: &[&str] = if hint == 3 { &["capacity-overflow"] } else { &[] };
                        self.handle_panic(acc, pn, doc);
                    }
                }
            }
            Op::SFromIter { s, items, hint } => {
                let si = *s as usize;
                let hint = *hint;
                let h = self.cfg.set_hashers[si].clone();
                ctx::with(|c| c.default_hasher = (h.seed, h.mode as u8));
                let objs: Vec<K> = items.iter().map(|&kv| K::make(kv)).collect();
                let ids: Vec<u64> = objs.iter().map(|k| k.oid()).collect();
                let co = call(|| {
                    if hint == 0 {
                        sut(|| objs.into_iter().collect::<Set<K>>())
                    } else {
                        sut(|| LyingIter { inner: objs.into_iter(), hint }.collect::<Set<K>>())
                    }
                });
                match co.result {
                    Err(pn) if hint == 3 => self.handle_panic(acc, pn, &["capacity-overflow"]),
                    Ok(newset) => {
                        let slot = &mut self.sets[si];
                        let old = std::mem::replace(&mut slot.s, newset);
                        let _ = call(|| sut(|| drop(old)));
                        slot.model.clear();
                        for (i, &kv) in items.iter().enumerate() {
                            slot.model.entry(kv).or_insert(ids[i]);
                        }
                        slot.countdown = rearm(&slot.s.verif_state());
                        acc.out.res = format!("collected {}", items.len());
                    }
                    Err(pn) => self.handle_panic(acc, pn, &[]),
                }
            }
            Op::SClear { s } => {
                let si = *s as usize;
                let before = self.sets[si].s.verif_state();
                let slot = &mut self.sets[si];
                let co = call(|| sut(|| slot.s.clear()));
                let stats = (co.hashes, co.alloc.allocs);
                match co.result {
                    Ok(()) => {
                        slot.model.clear();
                        if slot.s.verif_state().split {
                            acc.internal("progress-empty-old-kept", "set clear left an old table allocated".to_string());
                        }
                        acc.out.res = "()".to_string();
                        self.post_set(acc, si, before, stats, Cost::Exempt, false, 0, false);
                    }
                    Err(pn) => self.handle_panic(acc, pn, &[]),
                }
            }
            Op::SReserve { s, n } | Op::STryReserve { s, n, .. } => {
                let si = *s as usize;
                let fallible = matches!(op, Op::STryReserve { .. });
                let oom = if let Op::STryReserve { oom, .. } = op { *oom } else { false };
                let before = self.sets[si].s.verif_state();
                let slot = &mut self.sets[si];
                let (cap0, len0) = (slot.s.capacity(), slot.s.len());
                if !arg_allowed(*n, cap0) {
                    acc.out.res = "skipped".to_string();
                    return;
                }
                let n = resolve_arg::<K, ()>(*n, cap0, len0);
                let huge = is_overflow_huge(n);
                if !fallible && !huge && n >= (1 << 24) {
                    acc.out.res = "skipped".to_string();
                    return;
                }
                let co = call(|| {
                    if fallible {
                        if oom {
                            alloc::arm_oom(1);
                        }
                        sut(|| slot.s.try_reserve(n)).map_err(|e| format!("{:?}", e))
                    } else {
                        sut(|| slot.s.reserve(n));
                        Ok(())
                    }
                });
                let stats = (co.hashes, co.alloc.allocs);
                let refused = co.alloc.oom_fired + co.alloc.cap_refused > 0;
                acc.out.oom_fired = co.alloc.oom_fired + co.alloc.cap_refused;
                match co.result {
                    Ok(r) => {
                        let (cap1, len1) = (slot.s.capacity(), slot.s.len());
                        match &r {
                            Ok(()) => {
                                if len1.checked_add(n).map_or(true, |w| cap1 < w) {
                                    acc.anomaly("capacity-contract", format!("set reserve({}) returned normally but capacity()={} len()={}", n, cap1, len1));
                                }
                                acc.out.res = "Ok".to_string();
                            }
                            Err(e) => {
                                acc.out.res = "Err".to_string();
                                if !huge && !refused {
                                    acc.anomaly("capacity-contract", format!("set try_reserve({}) failed ({}) although nothing prevented it", n, e));
                                }
                            }
                        }
                        let cost = if before.split { Cost::Exempt } else { Cost::KeyAdding };
                        self.post_set(acc, si, before, stats, cost, false, 0, false);
                        self.sets[si].countdown = rearm(&self.sets[si].s.verif_state());
                    }
                    Err(pn) => {
                        if fallible && !matches!(pn, Panic::Injected(..)) {
                            acc.anomaly("capacity-contract", format!("set try_reserve({}) panicked", n));
                        }
                        if !fallible && huge {
                            self.handle_panic(acc, pn, &["capacity-overflow"]);
                        } else {
                            self.handle_panic(acc, pn, &[]);
                        }
                    }
                }
            }
            Op::SShrinkTo { s, .. } | Op::SShrinkToFit { s } => {
                let si = *s as usize;
                let before = self.sets[si].s.verif_state();
                let slot = &mut self.sets[si];
                let (cap0, len0) = (slot.s.capacity(), slot.s.len());
                let n = if let Op::SShrinkTo { n, .. } = op { Some(resolve_arg::<K, ()>(*n, cap0, len0)) } else { None };
                let co = call(|| match n {
                    Some(n) => sut(|| slot.s.shrink_to(n)),
                    None => sut(|| slot.s.shrink_to_fit()),
                });
                let stats = (co.hashes, co.alloc.allocs);
                match co.result {
                    Ok(()) => {
                        let after = slot.s.verif_state();
                        let (cap1, len1) = (slot.s.capacity(), slot.s.len());
                        if after.main_buckets > before.main_buckets {
                            acc.anomaly("capacity-contract", format!("set shrink enlarged the table: {} -> {} buckets", before.main_buckets, after.main_buckets));
                        }
                        let floor = len1.max(n.unwrap_or(0).min(cap0));
                        if cap1 < floor || len1 != len0 {
                            acc.anomaly("capacity-contract", format!("after set shrink_to({:?}) capacity()={} len()={} (was {})", n, cap1, len1, len0));
                        }
                        acc.out.res = "()".to_string();
                        self.post_set(acc, si, before, stats, Cost::Exempt, false, 0, true);
                        self.sets[si].countdown = rearm(&self.sets[si].s.verif_state());
                    }
                    Err(pn) => self.handle_panic(acc, pn, &[]),
                }
            }
            Op::SCloneTo { src, dst } | Op::SCloneFrom { src, dst } => {
                let (src, dst) = (*src as usize, *dst as usize);
                if src == dst || src >= self.sets.len() || dst >= self.sets.len() {
                    acc.out.res = "skipped".to_string();
                    return;
                }
                let clone_from = matches!(op, Op::SCloneFrom { .. });
                let src_before = self.sets[src].s.verif_state();
                let (s, d) = two_mut(&mut self.sets, src, dst);
                let co = call(|| {
                    if clone_from {
                        sut(|| d.s.clone_from(&s.s));
                        None
                    } else {
                        Some(sut(|| s.s.clone()))
                    }
                });
                match co.result {
                    Ok(newset) => {
                        if let Some(ns) = newset {
                            let old = std::mem::replace(&mut d.s, ns);
                            let _ = call(|| sut(|| drop(old)));
                        }
                        let mut model: BTreeMap<u32, u64> = BTreeMap::new();
                        let mut bad: Vec<String> = Vec::new();
                        for k in d.s.iter() {
                            k.check("set clone contents");
                            match s.model.get(&k.kv()) {
                                Some(&kid) => {
                                    if k.oid() != 0 && k.oid() == kid {
                                        bad.push(format!("set clone shares object for element {}", k.kv()));
                                    }
                                }
                                None => bad.push(format!("set clone holds {} which the source does not", k.kv())),
                            }
                            if model.insert(k.kv(), k.oid()).is_some() {
                                bad.push(format!("set clone iterates {} twice", k.kv()));
                            }
                        }
                        if model.len() != s.model.len() {
                            bad.push(format!("set clone has {} elements, source {}", model.len(), s.model.len()));
                        }
                        if *d.s.hasher() != *s.s.hasher() {
                            bad.push("set clone: destination hasher differs from source hasher".to_string());
                        }
                        d.model = model;
                        d.countdown = None;
                        for b in bad {
                            acc.wrong(b);
                        }
                        if s.s.verif_state() != src_before {
                            acc.anomaly("clone-changed-source", "set clone changed its source".to_string());
                        }
                        if d.s.verif_state().split {
                            acc.anomaly("clone-left-split", "the set copy still has an old table".to_string());
                        }
                        self.cfg.set_hashers[dst] = self.cfg.set_hashers[src].clone();
                        acc.out.res = "cloned".to_string();
                    }
                    Err(pn) => self.handle_panic(acc, pn, &[]),
                }
            }
            Op::SAlgebra { a, b, alg } => self.op_set_algebra(acc, *a as usize, *b as usize, *alg),
            Op::SIterCheck { s, clone_at } => {
                let si = *s as usize;
                let slot = &self.sets[si];
                let total = slot.model.len();
                let mut wrong: Vec<String> = Vec::new();
                let mut got: Vec<u32> = Vec::new();
                let co = call(|| {
                    let mut it = sut(|| slot.s.iter());
                    let mut side = None;
                    loop {
                        let remaining = total - got.len().min(total);
                        let (lo, hi) = sut(|| it.size_hint());
                        if lo != remaining || hi != Some(remaining) || sut(|| it.len()) != remaining {
                            wrong.push(format!("set iter: size_hint=({},{:?}) but {} remain", lo, hi, remaining));
                            break;
                        }
                        if *clone_at == Some(got.len() as u32) && side.is_none() {
                            side = Some((sut(|| it.clone()), got.len()));
                            sut(|| debug_to_sink(&it));
                        }
                        match sut(|| it.next()) {
                            Some(k) => {
                                k.check("set iter");
                                got.push(k.kv());
                            }
                            None => break,
                        }
                        if got.len() > total + 2 {
                            break;
                        }
                    }
                    for _ in 0..3 {
                        if sut(|| it.next()).is_some() {
                            wrong.push("set iter yielded after None".to_string());
                        }
                    }
                    if let Some((mut c, at)) = side {
                        let mut n = at;
                        while let Some(k) = sut(|| c.next()) {
                            if n < got.len() && k.kv() != got[n] {
                                wrong.push(format!("cloned set iterator diverged at {}", n));
                                break;
                            }
                            n += 1;
                        }
                        if n != total {
                            wrong.push(format!("cloned set iterator yielded {} of {}", n, total));
                        }
                    }
                });
                match co.result {
                    Ok(()) => {
                        let mut g = got.clone();
                        g.sort_unstable();
                        let want: Vec<u32> = slot.model.keys().copied().collect();
                        if wrong.is_empty() && g != want {
                            wrong.push(format!("set iter yielded {:?}, contents {:?}", g, want));
                        }
                        for w in wrong {
                            acc.anomaly("iter-mismatch", w);
                            acc.out.fatal = true;
                        }
                        acc.out.res = format!("iter {}", got.len());
                    }
                    Err(pn) => self.handle_panic(acc, pn, &[]),
                }
            }
            Op::SDebugCheck { s } => {
                let si = *s as usize;
                let slot = &self.sets[si];
                let co = call(|| sut(|| format!("{:?}", slot.s)));
                match co.result {
                    Ok(text) => {
                        let inner = text.trim_start_matches('{').trim_end_matches('}');
                        let mut got: Vec<String> = if inner.is_empty() { vec![] } else { inner.split(", ").map(|x| x.to_string()).collect() };
                        got.sort();
                        let mut want: Vec<String> = slot.model.keys().map(|&kv| format!("{:?}", crate::exec_map::DbgKey::<K>(kv, std::marker::PhantomData))).collect();
                        want.sort();
                        if got != want {
                            acc.wrong(format!("set Debug output {:?} does not match contents {:?}", got, want));
                        }
                        acc.out.res = format!("debug {}", got.len());
                    }
                    Err(pn) => self.handle_panic(acc, pn, &[]),
                }
            }
            Op::SProbe { s, max } => {
                let si = *s as usize;
                let before = self.sets[si].s.verif_state();
                let slot = &mut self.sets[si];
                let (cap, len) = (slot.s.capacity(), slot.s.len());
                if cap < len {
                    acc.internal("capacity-below-len", format!("set capacity()={} < len()={}", cap, len));
                    return;
                }
                if K::CLASS.is_zst() {
                    acc.out.res = "probe skipped (one possible element)".to_string();
                    return;
                }
                let mode_cap = match slot.s.hasher().mode {
                    crate::hasher::HashMode::Good | crate::hasher::HashMode::SameH2 => 5000,
                    crate::hasher::HashMode::Clustered => 800,
                    crate::hasher::HashMode::LowEntropy => 300,
                    crate::hasher::HashMode::AllCollide => 150,
                };
                let n = (cap - len).min(*max as usize).min(mode_cap);
                let mut last_cap = cap;
                let mut inserted = 0usize;
                for _ in 0..n {
                    let kv = self.fresh_key;
                    self.fresh_key += 1;
                    let key = K::make(kv);
                    let kid = key.oid();
                    let co = call(|| sut(|| slot.s.insert(key)));
                    match co.result {
                        Ok(r) => {
                            if !r {
                                acc.wrong(format!("set probe: fresh element {} was already present", kv));
                            }
                            slot.model.insert(kv, kid);
                            inserted += 1;
                            if co.alloc.allocs > 0 {
                                acc.anomaly("probe-alloc", format!("set insertion {} of {} within capacity allocated a table", inserted, n));
                            }
                            let c = slot.s.capacity();
                            if c < last_cap {
                                acc.anomaly("probe-capacity-decreased", format!("set capacity() went from {} to {} during the probe", last_cap, c));
                            }
                            last_cap = c;
                        }
                        Err(pn) => {
                            acc.anomaly("probe-panic", format!("set insertion {} of {} within capacity panicked: {:?}", inserted + 1, n, pn));
                            acc.out.fatal = true;
                            return;
                        }
                    }
                }
                let after = slot.s.verif_state();
                if inserted >= 1 && inserted == cap - len && after.split {
                    acc.anomaly("probe-resize-pending", format!("set resize still pending after filling to capacity ({} insertions)", inserted));
                }
                acc.out.before = Some(before);
                acc.out.after = Some(after);
                slot.countdown = rearm(&after);
                acc.out.res = format!("probe {}", inserted);
            }
            _ => {
                acc.out.res = "unimplemented".to_string();
            }
        }
    }

    fn op_set_algebra(&mut self, acc: &mut Acc, a: usize, b: usize, alg: SetAlg) {
        if a >= self.sets.len() || b >= self.sets.len() {
            acc.out.res = "skipped".to_string();
            return;
        }
        let h = self.cfg.set_hashers[a].clone();
        ctx::with(|c| c.default_hasher = (h.seed, h.mode as u8));
        let (sa, sb) = (&self.sets[a], &self.sets[b]);
        let ka: BTreeSet<u32> = sa.model.keys().copied().collect();
        let kb: BTreeSet<u32> = sb.model.keys().copied().collect();
        let collect = |it: &mut dyn Iterator<Item = &K>| -> Vec<u32> {
            let mut v = Vec::new();
            while let Some(k) = sut(|| it.next()) {
                k.check("set algebra yield");
                v.push(k.kv());
                if v.len() > ka.len() + kb.len() + 4 {
                    break;
                }
            }
            for _ in 0..2 {
                if sut(|| it.next()).is_some() {
                    v.push(u32::MAX);
                }
            }
            v
        };
        let owned = |s: Set<K>| -> Vec<u32> {
            let v: Vec<u32> = s.iter().map(|k| k.kv()).collect();
            sut(|| drop(s));
            v
        };
        enum Res {
            Elems(Vec<u32>),
            Bool(bool),
        }
        let mut eq_pair: Option<(bool, bool, bool)> = None;
        // the lazy algebra iterators are Clone + Debug: a clone taken after one step must yield
        // exactly the rest, and formatting must not consume anything
        fn with_clone<'x, K: KeyT + 'x, I: Iterator<Item = &'x K> + Clone + std::fmt::Debug>(mut it: I, collect: &dyn Fn(&mut dyn Iterator<Item = &'x K>) -> Vec<u32>) -> Vec<u32> {
            // size_hint must bracket what is still to come (asked before and after one step)
            let (lo0, hi0) = sut(|| it.size_hint());
            let first = sut(|| it.next());
            let (lo1, hi1) = sut(|| it.size_hint());
            sut(|| debug_to_sink(&it));
            let mut c = sut(|| it.clone());
            let mut a: Vec<u32> = first.iter().map(|k| k.kv()).collect();
            let rest = collect(&mut it);
            let rest2 = collect(&mut c);
            if rest != rest2 {
                a.push(u32::MAX - 1);
            }
            a.extend(rest);
            let total = a.len();
            let after_first = total - first.is_some() as usize;
            if lo0 > total || hi0.map_or(false, |h| h < total) || lo1 > after_first || hi1.map_or(false, |h| h < after_first) {
                // reported through the element list so that it surfaces as a wrong result
                a.push(u32::MAX - 2);
            }
            a
        }
        let co = call(|| match alg {
            SetAlg::Union => Res::Elems(with_clone(sut(|| sa.s.union(&sb.s)), &collect)),
            SetAlg::Intersection => Res::Elems(with_clone(sut(|| sa.s.intersection(&sb.s)), &collect)),
            SetAlg::Difference => Res::Elems(with_clone(sut(|| sa.s.difference(&sb.s)), &collect)),
            SetAlg::SymmetricDifference => Res::Elems(with_clone(sut(|| sa.s.symmetric_difference(&sb.s)), &collect)),
            SetAlg::BitOr => Res::Elems(owned(sut(|| &sa.s | &sb.s))),
            SetAlg::BitAnd => Res::Elems(owned(sut(|| &sa.s & &sb.s))),
            SetAlg::BitXor => Res::Elems(owned(sut(|| &sa.s ^ &sb.s))),
            SetAlg::Sub => Res::Elems(owned(sut(|| &sa.s - &sb.s))),
            SetAlg::IsSubset => Res::Bool(sut(|| sa.s.is_subset(&sb.s))),
            SetAlg::IsSuperset => Res::Bool(sut(|| sa.s.is_superset(&sb.s))),
            SetAlg::IsDisjoint => Res::Bool(sut(|| sa.s.is_disjoint(&sb.s))),
            SetAlg::Eq => {
                // both directions are judged separately (an asymmetric == must not cancel out)
                let ab = sut(|| sa.s == sb.s);
                let ba = sut(|| sb.s == sa.s);
                let aa = sut(|| sa.s == sa.s);
                eq_pair = Some((ab, ba, aa));
                Res::Bool(ab)
            }
        });
        match co.result {
            Ok(Res::Elems(mut got)) => {
                let want: Vec<u32> = match alg {
                    SetAlg::Union | SetAlg::BitOr => ka.union(&kb).copied().collect(),
                    SetAlg::Intersection | SetAlg::BitAnd => ka.intersection(&kb).copied().collect(),
                    SetAlg::Difference | SetAlg::Sub => ka.difference(&kb).copied().collect(),
                    _ => ka.symmetric_difference(&kb).copied().collect(),
                };
                got.sort_unstable();
                if got != want {
                    acc.wrong(format!("{:?} of sets {:?} and {:?} yielded {:?}, expected {:?}", alg, ka.iter().take(12).collect::<Vec<_>>(), kb.iter().take(12).collect::<Vec<_>>(), got.iter().take(24).collect::<Vec<_>>(), want.iter().take(24).collect::<Vec<_>>()));
                }
                acc.out.res = format!("{:?} {}", alg, got.len());
            }
            Ok(Res::Bool(got)) => {
                let want = match alg {
                    SetAlg::IsSubset => ka.is_subset(&kb),
                    SetAlg::IsSuperset => ka.is_superset(&kb),
                    SetAlg::IsDisjoint => ka.is_disjoint(&kb),
                    _ => ka == kb,
                };
                if got != want {
                    acc.wrong(format!("{:?} = {} expected {}", alg, got, want));
                }
                if let Some((ab, ba, aa)) = eq_pair {
                    if ba != want || !aa {
                        acc.wrong(format!("set ==: a==b {} b==a {} a==a {} expected {}", ab, ba, aa, want));
                    }
                }
                acc.out.res = format!("{:?} {}", alg, got);
            }
            Err(pn) => self.handle_panic(acc, pn, &[]),
        }
        let (sa_st, sb_st) = (self.sets[a].s.verif_state(), self.sets[b].s.verif_state());
        if sa_st.split || sb_st.split {
            acc.probe("set-algebra-with-split-operand");
        }
        acc.out.before = Some(sa_st);
        acc.out.after = Some(sb_st);
    }
}
