//! Set operations (C13) - dispatch.

use crate::elems::{KeyT, ValT};
use crate::exec::*;
use crate::ops::*;
use crate::world::*;

impl<K: KeyT, V: ValT> World<K, V> {
    pub(crate) fn dispatch_set(&mut self, acc: &mut Acc, op: &Op) {
        let _ = op;
        acc.out.res = "unimplemented".to_string();
    }
}
