//! C07: a panic in user code never corrupts the collection.
//!
//! For an explored (state, operation) the callbacks the operation performs are recorded in a
//! dry run; then the state is rebuilt once per callback and the operation is executed with a
//! panic injected at exactly that callback. The state after the caught panic is judged, the
//! model adopts what is observed, and the rest of the schedule runs under exact checking.

use crate::ctx::{self, Site};
use crate::elems::{ElemClass, KeyT, ValT};
use crate::ops::*;
use crate::props::Prop;
use crate::rng::{splitmix64, Rng};
use crate::run::{absorb, begin_run, kind_hash, RunOutcome};
use crate::world::*;
use std::collections::{BTreeMap, BTreeSet};

type MapModel = BTreeMap<u32, MEntry>;
type SetModel = BTreeMap<u32, u64>;

fn rebuild<K: KeyT, V: ValT>(spec: &RunSpec, upto: usize) -> Option<World<K, V>> {
    begin_run();
    let mut w: World<K, V> = World::new(&spec.cfg);
    for (i, op) in spec.ops[..upto].iter().enumerate() {
        let so = w.exec(i, op, None, false);
        if so.fatal || so.injected.is_some() {
            std::mem::forget(w);
            return None;
        }
    }
    Some(w)
}

fn snapshot<K: KeyT, V: ValT>(w: &World<K, V>) -> (Vec<MapModel>, Vec<SetModel>) {
    (w.maps.iter().map(|s| s.model.clone()).collect(), w.sets.iter().map(|s| s.model.clone()).collect())
}

fn has_replace_with(op: &Op) -> bool {
    match op {
        Op::Entry { chain, .. } => chain.iter().any(|s| matches!(s, EStep::AndReplaceSome | EStep::AndReplaceNone | EStep::OccReplaceWithSome | EStep::OccReplaceWithNone)),
        Op::RawMut { chain, .. } => chain.iter().any(|s| matches!(s, RStep::AndReplaceSome | RStep::AndReplaceNone | RStep::OccReplaceWithSome | RStep::OccReplaceWithNone)),
        _ => false,
    }
}

/// A handle chain that removes its element on the way (and may be interrupted by a later step
/// of the same chain): the chain's own key may legitimately be absent afterwards.
fn chain_removes(op: &Op) -> bool {
    match op {
        Op::Entry { chain, .. } => chain.iter().any(|s| matches!(s, EStep::AndReplaceNone | EStep::OccRemove | EStep::OccRemoveEntry | EStep::OccReplaceWithNone)),
        Op::RawMut { chain, .. } => chain.iter().any(|s| matches!(s, RStep::AndReplaceNone | RStep::OccRemove | RStep::OccRemoveEntry | RStep::OccReplaceWithNone)),
        _ => false,
    }
}

/// How many elements a single-key call may have been relocating when its Hash panicked: up to
/// R if a resize was in flight before the call (elements left in the old table) or the call
/// itself started one (the main table changed, or the collection became split) - whichever
/// step of the call did that -, none otherwise.
fn relocating(before: (usize, usize, bool), after: &griddle::hash_map::VerifState) -> usize {
    let (old_len, main_buckets, split) = before;
    let grew = after.main_buckets != main_buckets || (after.split && !split);
    if old_len > 0 || grew {
        8
    } else {
        0
    }
}

fn extra_legit(op: &Op) -> BTreeMap<u32, Vec<u32>> {
    let mut m: BTreeMap<u32, Vec<u32>> = BTreeMap::new();
    if let Op::Extend { items, .. } | Op::FromIter { items, .. } = op {
        for &(k, p) in items {
            m.entry(k).or_default().push(p);
        }
    }
    m
}

/// Payloads a handle chain writes on its way: a panic in the middle of the chain may leave
/// any of them (each is a value the element legitimately had).
fn chain_payloads(op: &Op) -> Vec<u32> {
    let (p0, n) = match op {
        Op::Entry { chain, p, .. } => (*p, chain.len()),
        Op::RawMut { chain, p, .. } => (*p, chain.len()),
        _ => return Vec::new(),
    };
    let mut v: Vec<u32> = (0..n as u32).map(|i| p0.wrapping_add(i)).collect();
    v.push(p0.wrapping_add(0x100));
    v.push(crate::elems::DEFAULT_PAYLOAD);
    v
}

fn anomaly(class: &'static str, idx: usize, op: &Op, detail: String) -> Anomaly {
    Anomaly { class, family: Family::Internal, op_index: idx, op_kind: op.kind(), detail }
}

/// Judge every collection after a caught injected panic and make the models adopt what is
/// observed. Returns the anomalies found.
#[allow(clippy::too_many_arguments)]
fn judge<K: KeyT, V: ValT>(
    w: &mut World<K, V>,
    idx: usize,
    op: &Op,
    site: Site,
    before: &(Vec<MapModel>, Vec<SetModel>),
    after: &(Vec<MapModel>, Vec<SetModel>),
    old_len_before: &[(usize, usize, bool)],
    chain_removed: Option<(usize, u32)>,
    partial: &BTreeMap<u32, Vec<u32>>,
) -> Vec<Anomaly> {
    let mut out = Vec::new();
    let w_cfg = w.cfg.clone();
    let dst_unspecified: Option<usize> = match op {
        Op::CloneFrom { dst, .. } => Some(*dst as usize),
        _ => None,
    };
    let set_dst_unspecified: Option<usize> = match op {
        Op::SCloneFrom { dst, .. } => Some(*dst as usize),
        _ => None,
    };
    let shrink = matches!(op, Op::ShrinkTo { .. } | Op::ShrinkToFit { .. } | Op::SShrinkTo { .. } | Op::SShrinkToFit { .. });
    for mi in 0..w.maps.len() {
        let slot = &mut w.maps[mi];
        let r = call(|| {
            let mut errs: Vec<(&'static str, String)> = Vec::new();
            let st = sut(|| slot.m.verif_state());
            if st.split && (st.cursor_remaining != st.old_len || !st.cursor_exact) {
                errs.push(("I1-cursor", format!("after the caught panic: cached iterator remaining={} old_len={} exact={}", st.cursor_remaining, st.old_len, st.cursor_exact)));
                return (errs, Vec::new());
            }
            let len = sut(|| slot.m.len());
            let mut seen: Vec<(u32, u64, u64, u32)> = Vec::new();
            for (k, v) in sut(|| slot.m.iter()) {
                k.check("after-fault iter key");
                v.check("after-fault iter value");
                seen.push((k.kv(), k.oid(), v.oid(), v.payload()));
                if seen.len() > len + 8 {
                    break;
                }
            }
            if seen.len() != len {
                errs.push(("fault-len", format!("map {}: len()={} but iteration yields {} entries", mi, len, seen.len())));
            }
            let mut keys = BTreeSet::new();
            for &(kv, _, _, p) in &seen {
                if !keys.insert(kv) {
                    errs.push(("fault-duplicate", format!("map {}: key {} iterated twice", mi, kv)));
                }
                let probe = K::probe(kv);
                match sut(|| slot.m.get(&probe)) {
                    Some(v) if v.payload() == p => {}
                    _ if dst_unspecified == Some(mi) => {}
                    other => errs.push(("fault-not-found", format!("map {}: iterated entry ({},{}) but get() gives {:?}", mi, kv, p, other.map(|v| v.payload())))),
                }
            }
            (errs, seen)
        });
        let (errs, seen) = match r.result {
            Ok(x) => x,
            Err(p) => {
                out.push(anomaly("fault-unusable", idx, op, format!("map {}: panic while reading the map after the caught panic: {:?}", mi, p)));
                continue;
            }
        };
        for (c, d) in errs {
            out.push(anomaly(c, idx, op, d));
        }
        if dst_unspecified != Some(mi) {
            let (b, a) = (&before.0[mi], &after.0[mi]);
            let extra = extra_legit(op);
            let chain_ps: Vec<u32> = chain_payloads(op).into_iter().map(V::norm).collect();
            let mut lost: Vec<u32> = Vec::new();
            let observed: BTreeMap<u32, u32> = seen.iter().map(|x| (x.0, x.3)).collect();
            let mut all: BTreeSet<u32> = b.keys().copied().collect();
            all.extend(a.keys().copied());
            all.extend(observed.keys().copied());
            for kv in all {
                let (bb, aa, oo) = (b.get(&kv).map(|e| e.p), a.get(&kv).map(|e| e.p), observed.get(&kv).copied());
                let legit = oo == bb || oo == aa || oo.map_or(false, |p| extra.get(&kv).map_or(false, |v| v.contains(&p)) || partial.get(&kv).map_or(false, |v| v.contains(&p)) || chain_ps.contains(&p));
                if legit {
                    continue;
                }
                if oo.is_none() {
                    if chain_removed == Some((mi, kv)) {
                        continue;
                    }
                    lost.push(kv);
                } else {
                    out.push(anomaly("fault-illegitimate-value", idx, op, format!("map {}: key {} holds {:?}; before the call {:?}, after an uninterrupted call {:?}", mi, kv, oo, bb, aa)));
                }
            }
            let bulk = shrink || matches!(op, Op::Reserve { .. } | Op::TryReserve { .. } | Op::Extend { .. } | Op::FromIter { .. } | Op::CloneTo { .. } | Op::CloneFrom { .. });
            let allowed = match site {
                // a panicking Hash may lose elements *being relocated*: none if this call
                // relocates nothing (no resize in flight and none started by it), at most R per
                // single-key call, anything for bulk calls
                Site::Hash => {
                    if bulk {
                        b.len()
                    } else {
                        relocating(old_len_before[mi], &slot.m.verif_state())
                    }
                }
                _ => {
                    if has_replace_with(op) {
                        1
                    } else {
                        0
                    }
                }
            };
            if lost.len() > allowed {
                out.push(anomaly(
                    "fault-lost-elements",
                    idx,
                    op,
                    format!("map {}: {} elements lost by a panic at {} (allowed {}): keys {:?}", mi, lost.len(), site.name(), allowed, &lost[..lost.len().min(8)]),
                ));
            }
        }
        // adopt
        slot.model = seen.iter().map(|&(kv, kid, vid, p)| (kv, MEntry { kid, vid, p })).collect();
        // (The destination of an interrupted clone_from has unspecified *contents* - they were
        // not judged above - but it stays in use: it must be as memory-safe and self-consistent
        // as any other collection, so the model adopts what it holds and the rest of the
        // schedule is checked exactly on it. An earlier version replaced it here and thereby
        // hid defect D8.)
        let st = slot.m.verif_state();
        slot.countdown = if st.split && st.old_len > 0 { Some(((st.old_len + st.r - 1) / st.r.max(1)) as u64) } else { None };
    }
    let n_maps = w.maps.len();
    for si in 0..w.sets.len() {
        let slot = &mut w.sets[si];
        let r = call(|| {
            let mut errs: Vec<(&'static str, String)> = Vec::new();
            let st = sut(|| slot.s.verif_state());
            if st.split && (st.cursor_remaining != st.old_len || !st.cursor_exact) {
                errs.push(("I1-cursor", format!("after the caught panic: set cached iterator remaining={} old_len={}", st.cursor_remaining, st.old_len)));
                return (errs, Vec::new());
            }
            let len = sut(|| slot.s.len());
            let mut seen: Vec<(u32, u64)> = Vec::new();
            for k in sut(|| slot.s.iter()) {
                k.check("after-fault set iter");
                seen.push((k.kv(), k.oid()));
                if seen.len() > len + 8 {
                    break;
                }
            }
            if seen.len() != len {
                errs.push(("fault-len", format!("set {}: len()={} but iteration yields {}", si, len, seen.len())));
            }
            let mut keys = BTreeSet::new();
            for &(kv, _) in &seen {
                if !keys.insert(kv) {
                    errs.push(("fault-duplicate", format!("set {}: element {} iterated twice", si, kv)));
                }
                let probe = K::probe(kv);
                if set_dst_unspecified != Some(si) && !sut(|| slot.s.contains(&probe)) {
                    errs.push(("fault-not-found", format!("set {}: iterated element {} but contains() is false", si, kv)));
                }
            }
            (errs, seen)
        });
        let (errs, seen) = match r.result {
            Ok(x) => x,
            Err(p) => {
                out.push(anomaly("fault-unusable", idx, op, format!("set {}: panic while reading the set after the caught panic: {:?}", si, p)));
                continue;
            }
        };
        for (c, d) in errs {
            out.push(anomaly(c, idx, op, d));
        }
        if set_dst_unspecified != Some(si) {
            let (b, a) = (&before.1[si], &after.1[si]);
            let observed: BTreeSet<u32> = seen.iter().map(|x| x.0).collect();
            let mut lost = 0usize;
            for kv in b.keys() {
                if a.contains_key(kv) && !observed.contains(kv) {
                    lost += 1;
                }
            }
            for kv in &observed {
                if !b.contains_key(kv) && !a.contains_key(kv) {
                    out.push(anomaly("fault-illegitimate-value", idx, op, format!("set {}: element {} appeared from nowhere", si, kv)));
                }
            }
            let reloc = relocating(old_len_before[n_maps + si], &slot.s.verif_state());
            let bulk = shrink || matches!(op, Op::SReserve { .. } | Op::STryReserve { .. } | Op::SExtend { .. } | Op::SFromIter { .. } | Op::SCloneTo { .. } | Op::SCloneFrom { .. });
            let allowed = if site == Site::Hash { if bulk { b.len() } else { reloc } } else { 0 };
            if lost > allowed {
                out.push(anomaly("fault-lost-elements", idx, op, format!("set {}: {} elements lost by a panic at {} (allowed {})", si, lost, site.name(), allowed)));
            }
        }
        slot.model = seen.iter().copied().collect();
        let st = slot.s.verif_state();
        slot.countdown = if st.split && st.old_len > 0 { Some(((st.old_len + st.r - 1) / st.r.max(1)) as u64) } else { None };
    }
    for e in ctx::take_errors() {
        out.push(anomaly("ledger", idx, op, e));
    }
    out
}

/// Classes that count as C07 violations once a panic has been injected and caught.
pub fn owns_after_fault(a: &Anomaly) -> bool {
    matches!(
        a.class,
        "result-mismatch" | "contents-mismatch" | "unexpected-panic" | "ledger" | "I1-cursor" | "I2-headroom" | "iter-mismatch" | "partition-mismatch" | "capacity-below-len"
            | "fault-len" | "fault-duplicate" | "fault-not-found" | "fault-unusable" | "fault-illegitimate-value" | "fault-lost-elements" | "fault-fuse-missed"
    )
}

pub fn run_c07<K: KeyT, V: ValT>(spec: &RunSpec, step_rng_seed: u64) -> RunOutcome {
    let mut out = RunOutcome::default();
    let n = spec.ops.len();
    let mut rng = Rng::new(step_rng_seed);
    // explicit fault list = replay of exactly those crash points
    let explicit: Vec<Fault> = spec.faults.clone();
    let steps: Vec<usize> = if !explicit.is_empty() {
        let mut s: Vec<usize> = explicit.iter().map(|f| f.at).collect();
        s.dedup();
        s
    } else if n <= 40 {
        (0..n).collect()
    } else {
        // a sample of 24 steps, biased to the second half (where resizes are in flight)
        let mut s = BTreeSet::new();
        while s.len() < 24 {
            let i = if rng.chance(1, 3) { rng.below(n as u64) } else { (n / 3) as u64 + rng.below((n - n / 3) as u64) };
            s.insert(i as usize);
        }
        s.into_iter().collect()
    };
    let hmode = spec.cfg.map_hashers.first().or(spec.cfg.set_hashers.first()).map_or(0, |h| h.mode as u8);
    let mut crash_points = 0u64;
    for &i in &steps {
        if i >= n {
            continue;
        }
        let op = &spec.ops[i];
        // ---- dry run
        let mut w: World<K, V> = match rebuild(spec, i) {
            Some(w) => w,
            None => break,
        };
        let state_before: Vec<griddle::hash_map::VerifState> = w.maps.iter().map(|s| s.m.verif_state()).chain(w.sets.iter().map(|s| s.s.verif_state())).collect();
        if state_before.iter().any(|s| s.split) {
            out.nontrivial = true;
        }
        let so = w.exec(i, op, None, true);
        let dry_fatal = so.fatal;
        let log = so.cb_log.clone();
        let after = snapshot(&w);
        if dry_fatal {
            std::mem::forget(w);
            break;
        }
        let _ = w.teardown(i, false);
        let _ = ctx::take_errors();
        if log.is_empty() {
            continue;
        }
        let points: Vec<u64> = if !explicit.is_empty() {
            explicit.iter().filter(|f| f.at == i).map(|f| f.nth).collect()
        } else if log.len() <= 64 {
            (1..=log.len() as u64).collect()
        } else {
            // very long callback sequences (bulk operations on big maps): first 24, last 8, 32 sampled
            let mut s: BTreeSet<u64> = (1..=24).collect();
            for j in 0..8 {
                s.insert(log.len() as u64 - j);
            }
            while s.len() < 64 {
                s.insert(1 + rng.below(log.len() as u64));
            }
            s.into_iter().collect()
        };
        for j in points {
            if j == 0 || j as usize > log.len() {
                continue;
            }
            if explicit.is_empty() && crate::past_deadline() {
                break;
            }
            let site = log[j as usize - 1];
            let mut w: World<K, V> = match rebuild(spec, i) {
                Some(w) => w,
                None => return out,
            };
            let before = snapshot(&w);
            // (old-table length, main bucket count, split) before the call, per collection
            let old_lens: Vec<(usize, usize, bool)> = w
                .maps
                .iter()
                .map(|s| s.m.verif_state())
                .chain(w.sets.iter().map(|s| s.s.verif_state()))
                .map(|st| (if st.split { st.old_len } else { 0 }, st.main_buckets, st.split))
                .collect();
            let chain_removed: Option<(usize, u32)> = match op {
                Op::Entry { m, k, .. } | Op::RawMut { m, k, .. } if chain_removes(op) => Some((*m as usize, w.maps[*m as usize].resolve_key(k))),
                _ => None,
            };
            let so = w.exec(i, op, Some(j), false);
            crash_points += 1;
            out.steps += 1;
            *out.faults.entry(format!("panic@{}:{}", site.name(), op.kind())).or_insert(0) += 1;
            for (si, st) in state_before.iter().enumerate() {
                if si == 0 || st.split {
                    out.states.push(splitmix64(kind_hash(op.kind()) ^ abstract_state(st).wrapping_mul(0x9E37_79B9_7F4A_7C15) ^ ((site as u64) << 50) ^ ((K::CLASS as u64) << 56) ^ ((hmode as u64) << 60)));
                }
            }
            let mut anomalies: Vec<Anomaly> = Vec::new();
            let mut stop = false;
            match so.injected {
                Some((s2, n2)) => {
                    if s2 != site || n2 != j {
                        anomalies.push(anomaly("fault-fuse-missed", i, op, format!("fuse armed for callback {} ({}) fired at {} ({})", j, site.name(), n2, s2.name())));
                    }
                    // anomalies raised by the interrupted step itself (ledger, allocator) count
                    anomalies.extend(so.anomalies.into_iter());
                    let partial: BTreeMap<u32, Vec<u32>> = BTreeMap::new();
                    anomalies.extend(judge(&mut w, i, op, site, &before, &after, &old_lens, chain_removed, &partial));
                }
                None => {
                    if so.fatal {
                        anomalies.extend(so.anomalies.into_iter());
                    } else {
                        anomalies.push(anomaly("fault-fuse-missed", i, op, format!("fuse armed for callback {} of {} did not fire (the operation is not deterministic?)", j, log.len())));
                    }
                }
            }
            for a in anomalies {
                if owns_after_fault(&a) {
                    if out.violation.is_none() {
                        let mut a = a;
                        a.detail = format!("[panic injected at callback {} ({}) of step {}] {}", j, site.name(), i, a.detail);
                        out.violation = Some(a);
                        // record the exact crash point for the replay file
                        out.fault = Some(Fault { at: i, nth: j, site: None });
                    }
                    stop = true;
                } else {
                    out.foreign.push(a.class);
                }
            }
            if stop {
                std::mem::forget(w);
                return out;
            }
            // ---- continue with the rest of the schedule under exact checking
            let tail_end = (i + 1 + 24).min(n);
            let mut tail_failed = false;
            for t in (i + 1)..tail_end {
                let top = &spec.ops[t];
                let so = w.exec(t, top, None, false);
                out.steps += 1;
                let fam = family_of(top);
                let mut an = so.anomalies;
                if !so.fatal {
                    an.extend(w.check_contents(t, top.kind(), fam, true));
                    an.extend(w.check_ledger(t, top.kind(), false));
                }
                for a in an {
                    if owns_after_fault(&a) {
                        if out.violation.is_none() {
                            let mut a = a;
                            a.detail = format!("[after a panic injected at callback {} ({}) of step {} ({})] {}", j, site.name(), i, op.kind(), a.detail);
                            out.violation = Some(a);
                            out.fault = Some(Fault { at: i, nth: j, site: None });
                        }
                        tail_failed = true;
                    } else {
                        out.foreign.push(a.class);
                    }
                }
                if tail_failed || so.fatal {
                    break;
                }
            }
            if tail_failed {
                std::mem::forget(w);
                return out;
            }
            for a in w.teardown(tail_end, false) {
                if owns_after_fault(&a) {
                    if out.violation.is_none() {
                        let mut a = a;
                        a.detail = format!("[teardown after a panic injected at callback {} ({}) of step {}] {}", j, site.name(), i, a.detail);
                        out.violation = Some(a);
                        out.fault = Some(Fault { at: i, nth: j, site: None });
                    }
                    return out;
                }
            }
        }
    }
    *out.faults.entry("crash-points".to_string()).or_insert(0) += crash_points;
    out.op_kinds = spec.ops.iter().map(|o| o.kind()).collect();
    let _ = Prop::C07;
    let _ = absorb;
    out
}
