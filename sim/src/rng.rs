//! The only source of randomness in the simulator: a splitmix64-seeded xoshiro256**.
//! One `Rng` is created per run from `mix(VERIF_SEED, property, run index)`.

#[derive(Clone, Debug)]
pub struct Rng {
    s: [u64; 4],
}

#[inline]
pub fn splitmix64(x: u64) -> u64 {
    let mut z = x.wrapping_add(0x9E37_79B9_7F4A_7C15);
    z = (z ^ (z >> 30)).wrapping_mul(0xBF58_476D_1CE4_E5B9);
    z = (z ^ (z >> 27)).wrapping_mul(0x94D0_49BB_1331_11EB);
    z ^ (z >> 31)
}

/// Deterministic mixing of several integers into one seed.
pub fn mix(parts: &[u64]) -> u64 {
    let mut h = 0x243F_6A88_85A3_08D3u64;
    for &p in parts {
        h = splitmix64(h ^ p);
    }
    h
}

impl Rng {
    pub fn new(seed: u64) -> Self {
        let mut s = [0u64; 4];
        let mut x = seed;
        for slot in s.iter_mut() {
            x = splitmix64(x);
            *slot = x;
        }
        if s == [0; 4] {
            s[0] = 1;
        }
        Rng { s }
    }

    #[inline]
    pub fn next_u64(&mut self) -> u64 {
        let result = self.s[1].wrapping_mul(5).rotate_left(7).wrapping_mul(9);
        let t = self.s[1] << 17;
        self.s[2] ^= self.s[0];
        self.s[3] ^= self.s[1];
        self.s[1] ^= self.s[2];
        self.s[0] ^= self.s[3];
        self.s[2] ^= t;
        self.s[3] = self.s[3].rotate_left(45);
        result
    }

    /// Uniform in `0..n` (n > 0).
    #[inline]
    pub fn below(&mut self, n: u64) -> u64 {
        debug_assert!(n > 0);
        // Multiply-shift; bias is irrelevant here.
        ((self.next_u64() as u128 * n as u128) >> 64) as u64
    }

    #[inline]
    pub fn range(&mut self, lo: u64, hi_incl: u64) -> u64 {
        lo + self.below(hi_incl - lo + 1)
    }

    #[inline]
    pub fn chance(&mut self, num: u64, den: u64) -> bool {
        self.below(den) < num
    }

    pub fn pick<'a, T>(&mut self, xs: &'a [T]) -> &'a T {
        &xs[self.below(xs.len() as u64) as usize]
    }

    /// Index drawn proportionally to `weights` (sum > 0).
    pub fn weighted(&mut self, weights: &[u32]) -> usize {
        let total: u64 = weights.iter().map(|&w| w as u64).sum();
        let mut x = self.below(total.max(1));
        for (i, &w) in weights.iter().enumerate() {
            if x < w as u64 {
                return i;
            }
            x -= w as u64;
        }
        weights.len() - 1
    }
}
