//! The simulated world: one to three real griddle maps and sets, their reference models, and
//! the machinery shared by every operation (SUT windows, panic capture, anomalies).

use crate::alloc::{self, WinStats, ALLOC};
use crate::ctx::{self, FuseBlown, Site};
use crate::elems::{ElemClass, KeyT, ValT};
use crate::hasher::SimHasher;
use crate::ops::*;
use crate::rng::splitmix64;
use griddle::hash_map::{VerifLoc, VerifState};
use griddle::{HashMap, HashSet};
use std::collections::BTreeMap;
use std::panic::{catch_unwind, AssertUnwindSafe};

pub type Map<K, V> = HashMap<K, V, SimHasher>;
pub type Set<K> = HashSet<K, SimHasher>;

/// What the model knows about one stored element: which key object, which value object,
/// and the value's current payload.
#[derive(Clone, Copy, Debug, PartialEq, Eq)]
pub struct MEntry {
    pub kid: u64,
    pub vid: u64,
    pub p: u32,
}

pub struct MapSlot<K: KeyT, V: ValT> {
    pub m: Map<K, V>,
    pub model: BTreeMap<u32, MEntry>,
    /// C03: remaining key-adding calls within which the resize in flight must finish.
    pub countdown: Option<u64>,
    /// an emptied-but-present old table was seen (retain / replace_entry_with window)
    pub empty_old_seen: bool,
}

pub struct SetSlot<K: KeyT> {
    pub s: Set<K>,
    pub model: BTreeMap<u32, u64>,
    pub countdown: Option<u64>,
    pub empty_old_seen: bool,
}

#[derive(Clone, Copy, Debug, PartialEq, Eq, PartialOrd, Ord, Hash)]
pub enum Family {
    MapBasic,
    Handle,
    Lazy,
    Iter,
    Capacity,
    CloneOp,
    Observer,
    Probe,
    SetBasic,
    SetAlgebra,
    Serde,
    /// not tied to an operation family: ledger, hook invariants, allocator accounting
    Internal,
}

pub fn family_of(op: &Op) -> Family {
    use Op::*;
    match op {
        Insert { .. } | Get { .. } | GetMut { .. } | GetKeyValue { .. } | GetKeyValueMut { .. }
        | ContainsKey { .. } | Index { .. } | Remove { .. } | RemoveEntry { .. } | Clear { .. }
        | Extend { .. } | FromIter { .. } | IterMutWrite { .. } => Family::MapBasic,
        Entry { .. } | RawMut { .. } | RawGet { .. } => Family::Handle,
        Retain { .. } | DrainFilter { .. } | SRetain { .. } | SDrainFilter { .. } => Family::Lazy,
        Drain { .. } | IntoIter { .. } | IterCheck { .. } | SDrain { .. } | SIntoIter { .. }
        | SIterCheck { .. } => Family::Iter,
        Reserve { .. } | TryReserve { .. } | ShrinkTo { .. } | ShrinkToFit { .. }
        | WithCapacity { .. } | SReserve { .. } | STryReserve { .. } | SShrinkTo { .. }
        | SShrinkToFit { .. } => Family::Capacity,
        CloneTo { .. } | CloneFrom { .. } | SCloneTo { .. } | SCloneFrom { .. } => Family::CloneOp,
        EqCheck { .. } | DebugCheck { .. } | SDebugCheck { .. } => Family::Observer,
        Probe { .. } | SProbe { .. } => Family::Probe,
        SerdeMap { .. } | SerdeSet { .. } => Family::Serde,
        SInsert { .. } | SReplace { .. } | SRemove { .. } | STake { .. } | SGet { .. }
        | SContains { .. } | SGetOrInsert { .. } | SGetOrInsertOwned { .. }
        | SGetOrInsertWith { .. } | SExtend { .. } | SFromIter { .. } | SClear { .. } => {
            Family::SetBasic
        }
        SAlgebra { .. } => Family::SetAlgebra,
    }
}

/// Something the oracles did not expect. `class` is a stable identifier.
#[derive(Clone, Debug)]
pub struct Anomaly {
    pub class: &'static str,
    pub family: Family,
    pub op_index: usize,
    pub op_kind: &'static str,
    pub detail: String,
}

#[derive(Debug)]
pub enum Panic {
    Injected(Site, u64),
    Message(String),
}

/// Result of one SUT call sequence executed under `catch_unwind`.
pub struct CallOut<R> {
    pub result: Result<R, Panic>,
    pub alloc: WinStats,
    pub hashes: u64,
    pub eqs: u64,
    pub clones: u64,
    pub closures: u64,
}

/// RAII: griddle code is running on behalf of an operation.
pub struct SutGuard;
impl SutGuard {
    #[inline]
    pub fn new() -> Self {
        ALLOC.with(|a| a.in_sut.set(a.in_sut.get() + 1));
        SutGuard
    }
}
impl Drop for SutGuard {
    #[inline]
    fn drop(&mut self) {
        ALLOC.with(|a| a.in_sut.set(a.in_sut.get().saturating_sub(1)));
    }
}

/// Run griddle code: allocations are attributed to the collection, callbacks are counted.
#[inline]
pub fn sut<R>(f: impl FnOnce() -> R) -> R {
    let _g = SutGuard::new();
    f()
}

/// A user closure body invoked by griddle: counts as a `Closure` callback (fuse site), then
/// runs as harness code.
#[inline]
pub fn closure_body<R>(f: impl FnOnce() -> R) -> R {
    ctx::callback(Site::Closure);
    let _g = alloc::HarnessGuard::new();
    f()
}

pub fn call<R>(f: impl FnOnce() -> R) -> CallOut<R> {
    ctx::window_reset();
    ALLOC.with(|a| {
        a.win_allocs.set(0);
        a.win_frees.set(0);
        a.win_max_req.set(0);
        a.oom_fired.set(0);
        a.cap_refused.set(0);
    });
    let r = catch_unwind(AssertUnwindSafe(f));
    let alloc = ALLOC.with(|a| {
        a.in_sut.set(0);
        a.harness.set(0);
        a.fail_at_least.set(usize::MAX);
        WinStats {
            allocs: a.win_allocs.get(),
            frees: a.win_frees.get(),
            max_req: a.win_max_req.get(),
            oom_fired: a.oom_fired.get(),
            cap_refused: a.cap_refused.get(),
        }
    });
    let (hashes, eqs, clones, closures, fired) =
        ctx::with(|c| (c.hashes, c.eqs, c.clones, c.closures, c.fuse_fired));
    let result = match r {
        Ok(v) => Ok(v),
        Err(payload) => {
            if payload.is::<FuseBlown>() {
                let (site, n) = fired.unwrap_or((Site::Closure, 0));
                Err(Panic::Injected(site, n))
            } else if let Some(s) = payload.downcast_ref::<&'static str>() {
                Err(Panic::Message((*s).to_string()))
            } else if let Some(s) = payload.downcast_ref::<String>() {
                Err(Panic::Message(s.clone()))
            } else {
                Err(Panic::Message("<non-string panic payload>".to_string()))
            }
        }
    };
    CallOut {
        result,
        alloc,
        hashes,
        eqs,
        clones,
        closures,
    }
}

/// An iterator whose `size_hint` lies (legal for a safe `Iterator`: the hint is advisory).
pub struct LyingIter<I> {
    pub inner: I,
    pub hint: u8,
}

impl<I: Iterator + ExactSizeIterator> Iterator for LyingIter<I> {
    type Item = I::Item;
    fn next(&mut self) -> Option<I::Item> {
        self.inner.next()
    }
    fn size_hint(&self) -> (usize, Option<usize>) {
        let n = self.inner.len();
        match self.hint {
            0 => (n, Some(n)),
            1 => (0, None),
            2 => (n / 2, None),
            3 => (usize::MAX, None),
            _ => (2 * n + 7, None),
        }
    }
}

/// A formatter sink that allocates nothing (Debug impls are run for their side effects only).
pub struct Sink;
impl std::fmt::Write for Sink {
    fn write_str(&mut self, _s: &str) -> std::fmt::Result {
        Ok(())
    }
}

pub fn debug_to_sink<T: std::fmt::Debug>(x: &T) {
    use std::fmt::Write;
    let _ = write!(Sink, "{:?}", x);
}

pub fn pred_mask(seed: u64, pct: u8, kv: u32) -> bool {
    (splitmix64(seed ^ (kv as u64).wrapping_mul(0x9E37_79B9)) % 100) < pct as u64
}

#[derive(Clone, Copy, Debug, Default)]
pub struct StepInfo {
    /// hook state before / after the step for the target slot
    pub before: Option<VerifState>,
    pub after: Option<VerifState>,
}

pub struct World<K: KeyT, V: ValT> {
    pub cfg: Config,
    pub maps: Vec<MapSlot<K, V>>,
    pub sets: Vec<SetSlot<K>>,
    pub step: usize,
    /// per-step result strings (C17 transcripts, samples); None = not recorded
    pub transcript: Option<Vec<String>>,
    /// number of collections whose contents were forgotten (leak exemptions)
    pub forgot_tables: i64,
    pub fresh_key: u32,
}

pub fn new_map<K: KeyT, V: ValT>(h: &HasherCfg, cap0: usize) -> Map<K, V> {
    let hs = SimHasher::new(h.seed, h.mode);
    if cap0 == 0 {
        sut(|| HashMap::with_hasher(hs))
    } else {
        sut(|| HashMap::with_capacity_and_hasher(cap0, hs))
    }
}

pub fn new_set<K: KeyT>(h: &HasherCfg, cap0: usize) -> Set<K> {
    let hs = SimHasher::new(h.seed, h.mode);
    if cap0 == 0 {
        sut(|| HashSet::with_hasher(hs))
    } else {
        sut(|| HashSet::with_capacity_and_hasher(cap0, hs))
    }
}

impl<K: KeyT, V: ValT> World<K, V> {
    pub fn new(cfg: &Config) -> Self {
        ctx::set_step(0);
        let maps = cfg
            .map_hashers
            .iter()
            .zip(cfg.map_cap0.iter())
            .map(|(h, &c)| MapSlot {
                m: new_map(h, c),
                model: BTreeMap::new(),
                countdown: None,
                empty_old_seen: false,
            })
            .collect();
        let sets = cfg
            .set_hashers
            .iter()
            .zip(cfg.set_cap0.iter())
            .map(|(h, &c)| SetSlot {
                s: new_set(h, c),
                model: BTreeMap::new(),
                countdown: None,
                empty_old_seen: false,
            })
            .collect();
        World {
            cfg: cfg.clone(),
            maps,
            sets,
            step: 0,
            transcript: None,
            forgot_tables: 0,
            fresh_key: 0x4000_0000,
        }
    }

    pub fn class(&self) -> ElemClass {
        K::CLASS
    }

    pub fn collections(&self) -> usize {
        self.maps.len() + self.sets.len()
    }
}

pub fn locate_rank(loc: VerifLoc) -> Option<usize> {
    match loc {
        VerifLoc::Old { rank, .. } => rank,
        _ => None,
    }
}

/// Abstract state used to count distinct non-trivial situations (coverage measure).
pub fn abstract_state(st: &VerifState) -> u64 {
    let log2 = |x: usize| if x == 0 { 0u64 } else { (usize::BITS - x.leading_zeros()) as u64 };
    let r = st.r.max(1);
    let old_class = if !st.split {
        0
    } else if st.old_len == 0 {
        1
    } else if st.old_len == 1 {
        2
    } else if st.old_len < r {
        3
    } else if st.old_len == r {
        4
    } else if st.old_len <= 2 * r {
        5
    } else {
        6
    };
    let free = st.main_capacity - st.main_len.min(st.main_capacity);
    let free_class = if free == 0 {
        0
    } else if free == 1 {
        1
    } else if free <= r {
        2
    } else {
        3
    };
    (st.split as u64) | (log2(st.main_buckets) << 1) | (log2(st.old_buckets) << 8) | (old_class << 15) | (free_class << 19)
}
