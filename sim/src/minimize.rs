//! Shrinking a failing schedule: drop operations (delta debugging), simplify arguments, drop
//! faults, simplify the configuration - accepting a candidate only when the same property is
//! violated with the same violation class.

use crate::hasher::HashMode;
use crate::ops::*;
use crate::props::Prop;
use crate::run;

pub struct Minimizer {
    pub prop: Prop,
    pub class: String,
    pub tests: u64,
    /// run candidates in a child process (needed when the failure kills the process)
    pub subprocess: bool,
}

impl Minimizer {
    pub fn fails(&mut self, spec: &RunSpec) -> bool {
        self.tests += 1;
        if self.subprocess {
            return crate::subprocess_fails(self.prop, spec, &self.class);
        }
        let o = crate::run_for_prop(self.prop, spec, false);
        match o.violation.or(o.soft) {
            Some(a) => a.class == self.class,
            None => false,
        }
    }

    fn renumber_faults(spec: &RunSpec, kept: &[usize]) -> Vec<Fault> {
        let mut out = Vec::new();
        for f in &spec.faults {
            if let Some(pos) = kept.iter().position(|&i| i == f.at) {
                out.push(Fault { at: pos, nth: f.nth, site: f.site });
            }
        }
        out
    }

    fn with_ops(spec: &RunSpec, kept: &[usize]) -> RunSpec {
        RunSpec {
            cfg: spec.cfg.clone(),
            ops: kept.iter().map(|&i| spec.ops[i].clone()).collect(),
            faults: if spec.mode.is_some() { spec.faults.clone() } else { Self::renumber_faults(spec, kept) },
            mode: spec.mode.clone(),
        }
    }

    pub fn minimize(&mut self, spec: &RunSpec) -> RunSpec {
        let mut cur = spec.clone();
        let t0 = std::time::Instant::now();
        let budget = std::time::Duration::from_secs(25);
        // 0. everything after the failing step is irrelevant
        if !self.subprocess {
            if let Some(a) = { let o2 = crate::run_for_prop(self.prop, &cur, false); o2.violation.or(o2.soft) } {
                if a.op_index + 1 < cur.ops.len() {
                    let kept: Vec<usize> = (0..=a.op_index).collect();
                    let cand = Self::with_ops(&cur, &kept);
                    if self.fails(&cand) {
                        cur = cand;
                    }
                }
            }
        }
        // 1. truncate after the failing step is implicit (runs stop at the violation); ddmin
        let mut n = 2usize;
        loop {
            let len = cur.ops.len();
            if len <= 1 {
                break;
            }
            let chunk = (len + n - 1) / n;
            let mut reduced = false;
            let mut start = 0;
            while start < len {
                let end = (start + chunk).min(len);
                let kept: Vec<usize> = (0..len).filter(|i| *i < start || *i >= end).collect();
                if !kept.is_empty() {
                    let cand = Self::with_ops(&cur, &kept);
                    if self.fails(&cand) {
                        cur = cand;
                        reduced = true;
                        n = n.saturating_sub(1).max(2);
                        break;
                    }
                }
                start = end;
            }
            if !reduced {
                if chunk <= 1 {
                    break;
                }
                n = (n * 2).min(len);
            }
            if self.tests > 20_000 || t0.elapsed() > budget {
                break;
            }
        }
        // 2. simplify operations
        let mut changed = true;
        let mut rounds = 0;
        while changed && rounds < 4 && t0.elapsed() < budget * 2 {
            changed = false;
            rounds += 1;
            for i in 0..cur.ops.len() {
                for cand_op in simpler(&cur.ops[i]) {
                    let mut cand = cur.clone();
                    cand.ops[i] = cand_op;
                    if self.fails(&cand) {
                        cur = cand;
                        changed = true;
                        break;
                    }
                }
            }
        }
        // 3. drop faults
        let mut fi = 0;
        while fi < cur.faults.len() {
            let mut cand = cur.clone();
            cand.faults.remove(fi);
            if self.fails(&cand) {
                cur = cand;
            } else {
                fi += 1;
            }
        }
        // 4. simplify configuration
        for i in 0..cur.cfg.map_cap0.len() {
            if cur.cfg.map_cap0[i] != 0 {
                let mut cand = cur.clone();
                cand.cfg.map_cap0[i] = 0;
                if self.fails(&cand) {
                    cur = cand;
                }
            }
            if cur.cfg.map_hashers[i].mode != HashMode::Good {
                let mut cand = cur.clone();
                cand.cfg.map_hashers[i].mode = HashMode::Good;
                if self.fails(&cand) {
                    cur = cand;
                }
            }
        }
        for i in 0..cur.cfg.set_cap0.len() {
            if cur.cfg.set_cap0[i] != 0 {
                let mut cand = cur.clone();
                cand.cfg.set_cap0[i] = 0;
                if self.fails(&cand) {
                    cur = cand;
                }
            }
            if cur.cfg.set_hashers[i].mode != HashMode::Good {
                let mut cand = cur.clone();
                cand.cfg.set_hashers[i].mode = HashMode::Good;
                if self.fails(&cand) {
                    cur = cand;
                }
            }
        }
        // drop trailing unused slots
        loop {
            let used_maps = cur.ops.iter().map(max_map_slot).max().unwrap_or(0);
            if cur.cfg.map_hashers.len() > used_maps.max(1) {
                let mut cand = cur.clone();
                cand.cfg.map_hashers.pop();
                cand.cfg.map_cap0.pop();
                if self.fails(&cand) {
                    cur = cand;
                    continue;
                }
            }
            break;
        }
        cur.cfg.full_check_every = 1;
        if !self.fails(&cur) {
            cur.cfg.full_check_every = spec.cfg.full_check_every;
        }
        cur
    }
}

fn max_map_slot(op: &Op) -> usize {
    let v = serde_json::to_value(op).unwrap();
    let mut best = 0usize;
    if let Some(obj) = v.as_object().and_then(|o| o.values().next()).and_then(|x| x.as_object()) {
        for key in ["m", "src", "dst", "a", "b"] {
            if let Some(n) = obj.get(key).and_then(|x| x.as_u64()) {
                best = best.max(n as usize + 1);
            }
        }
    }
    best
}

fn simple_key(k: &KeySel) -> Vec<KeySel> {
    match *k {
        KeySel::Old(_, fb) | KeySel::Main(_, fb) => vec![KeySel::Kv(fb)],
        KeySel::Kv(_) => vec![],
    }
}

/// Simpler variants of one operation, most aggressive first.
fn simpler(op: &Op) -> Vec<Op> {
    let mut out = Vec::new();
    match op {
        Op::Insert { m, k, p } => {
            for k2 in simple_key(k) {
                out.push(Op::Insert { m: *m, k: k2, p: *p });
            }
        }
        Op::Remove { m, k } => {
            for k2 in simple_key(k) {
                out.push(Op::Remove { m: *m, k: k2 });
            }
        }
        Op::Entry { m, k, chain, p } => {
            for i in 0..chain.len() {
                if chain.len() > 1 {
                    let mut c = chain.clone();
                    c.remove(i);
                    out.push(Op::Entry { m: *m, k: *k, chain: c, p: *p });
                }
            }
            for k2 in simple_key(k) {
                out.push(Op::Entry { m: *m, k: k2, chain: chain.clone(), p: *p });
            }
        }
        Op::RawMut { m, k, how, chain, p } => {
            for i in 0..chain.len() {
                if chain.len() > 1 {
                    let mut c = chain.clone();
                    c.remove(i);
                    out.push(Op::RawMut { m: *m, k: *k, how: *how, chain: c, p: *p });
                }
            }
            if *how != Lookup::FromKey {
                out.push(Op::RawMut { m: *m, k: *k, how: Lookup::FromKey, chain: chain.clone(), p: *p });
            }
            for k2 in simple_key(k) {
                out.push(Op::RawMut { m: *m, k: k2, how: *how, chain: chain.clone(), p: *p });
            }
        }
        Op::Extend { m, items, by_ref, hint } => {
            if items.len() > 1 {
                out.push(Op::Extend { m: *m, items: items[..items.len() / 2].to_vec(), by_ref: *by_ref, hint: *hint });
                out.push(Op::Extend { m: *m, items: items[items.len() / 2..].to_vec(), by_ref: *by_ref, hint: *hint });
            }
        }
        Op::FromIter { m, items, hint } => {
            if items.len() > 1 {
                out.push(Op::FromIter { m: *m, items: items[..items.len() / 2].to_vec(), hint: *hint });
            }
        }
        Op::Retain { m, pred, mutate } => {
            if mutate.is_some() {
                out.push(Op::Retain { m: *m, pred: *pred, mutate: None });
            }
            if !matches!(pred, Pred::None | Pred::All) {
                out.push(Op::Retain { m: *m, pred: Pred::None, mutate: *mutate });
            }
        }
        Op::DrainFilter { m, pred, mutate, consume, drop_panic } => {
            if *consume != Consume::All {
                out.push(Op::DrainFilter { m: *m, pred: *pred, mutate: *mutate, consume: Consume::All, drop_panic: None });
            }
            if mutate.is_some() {
                out.push(Op::DrainFilter { m: *m, pred: *pred, mutate: None, consume: *consume, drop_panic: *drop_panic });
            }
            if !matches!(pred, Pred::None | Pred::All) {
                out.push(Op::DrainFilter { m: *m, pred: Pred::All, mutate: *mutate, consume: *consume, drop_panic: *drop_panic });
            }
        }
        Op::Drain { m, consume } => {
            if *consume != Consume::All {
                out.push(Op::Drain { m: *m, consume: Consume::All });
            }
        }
        Op::TryReserve { m, n, oom } => {
            if *oom {
                out.push(Op::TryReserve { m: *m, n: *n, oom: false });
            }
        }
        _ => {}
    }
    out
}
