//! Open-loop generation of run schedules. Generation never looks at the system under test:
//! it only uses the PRNG and a cheap shadow of which keys are probably present.

use crate::elems::ElemClass;
use crate::hasher::HashMode;
use crate::ops::*;
use crate::rng::Rng;
use std::collections::BTreeSet;

pub const THRESHOLDS: [u32; 9] = [3, 7, 14, 28, 56, 112, 224, 448, 896];

/// Generatable operation kinds.
#[derive(Clone, Copy, Debug, PartialEq, Eq, PartialOrd, Ord)]
pub enum G {
    InsertNew,
    InsertAny,
    Get,
    GetMut,
    GetKeyValue,
    GetKeyValueMut,
    ContainsKey,
    Index,
    Remove,
    RemoveEntry,
    Clear,
    Extend,
    FromIter,
    IterMutWrite,
    Entry,
    RawMut,
    RawGet,
    Retain,
    DrainFilter,
    Drain,
    IntoIter,
    Reserve,
    TryReserve,
    ShrinkTo,
    ShrinkToFit,
    WithCapacity,
    CloneTo,
    CloneFrom,
    IterCheck,
    EqCheck,
    DebugCheck,
    Probe,
    // sets
    SInsert,
    SReplace,
    SRemove,
    STake,
    SGet,
    SContains,
    SGetOrInsert,
    SGetOrInsertOwned,
    SGetOrInsertWith,
    SRetain,
    SDrain,
    SDrainFilter,
    SIntoIter,
    SExtend,
    SFromIter,
    SClear,
    SReserve,
    STryReserve,
    SShrinkTo,
    SShrinkToFit,
    SCloneTo,
    SCloneFrom,
    SAlgebra,
    SIterCheck,
    SDebugCheck,
    SProbe,
    SerdeMap,
    SerdeSet,
}

#[derive(Clone, Debug)]
pub struct Profile {
    pub weights: Vec<(G, u32)>,
    pub maps: usize,
    pub sets: usize,
    /// weights for Plain / Tracked / Zst
    pub elem: [u32; 3],
    /// weights per hasher mode (Good, LowEntropy, AllCollide, SameH2, Clustered)
    pub hashers: [u32; 5],
    /// allow capacity-relative and boundary arguments
    pub boundary_args: bool,
    /// allow overflow-huge / OOM-huge arguments and simulated OOM
    pub huge_args: bool,
    /// allow drop/forget cancellation of lazy operations
    pub cancel: bool,
    pub forget: bool,
    /// swarm: keep each weighted kind with this probability (percent)
    pub keep_pct: u64,
    pub long_runs: bool,
    pub max_len: usize,
    /// probability (percent) that a run starts with a steering prelude
    pub prelude_pct: u64,
    /// end every run with the C04 probe
    pub end_probe: bool,
    pub max_universe: u32,
    /// inject panicking destructors into early-dropped drain_filter iterators (C09)
    pub drop_panics: bool,
    /// half of the zero-sized configurations use the class with destructors
    pub zst_drop: bool,
    /// build half of the zero-sized runs from insert / start-a-resize / operate episodes
    pub zst_focus: bool,
}

impl Profile {
    pub fn base() -> Profile {
        Profile {
            weights: vec![],
            maps: 1,
            sets: 0,
            elem: [6, 3, 1],
            hashers: [6, 2, 1, 1, 2],
            boundary_args: true,
            huge_args: false,
            cancel: true,
            forget: false,
            keep_pct: 70,
            long_runs: true,
            max_len: 80,
            prelude_pct: 75,
            end_probe: false,
            max_universe: 4096,
            drop_panics: false,
            zst_drop: false,
            zst_focus: false,
        }
    }
}

pub struct Shadow {
    pub maps: Vec<BTreeSet<u32>>,
    pub sets: Vec<BTreeSet<u32>>,
}

pub struct Gen<'a> {
    pub rng: &'a mut Rng,
    pub prof: &'a Profile,
    pub cfg: Config,
    pub shadow: Shadow,
    pub next_p: u32,
    pub ops: Vec<Op>,
}

fn nth(s: &BTreeSet<u32>, i: usize) -> Option<u32> {
    s.iter().nth(i).copied()
}

impl<'a> Gen<'a> {
    pub fn payload(&mut self) -> u32 {
        self.next_p += 1;
        self.next_p
    }

    pub fn draw_config(rng: &mut Rng, prof: &Profile) -> Config {
        let elem = match rng.weighted(&prof.elem) {
            0 => ElemClass::Plain,
            1 => ElemClass::Tracked,
            _ => {
                if prof.zst_drop && rng.chance(1, 2) {
                    ElemClass::ZstDrop
                } else {
                    ElemClass::Zst
                }
            }
        };
        let mut hashers = |rng: &mut Rng| HasherCfg { seed: rng.next_u64(), mode: HashMode::ALL[rng.weighted(&prof.hashers)] };
        let map_hashers: Vec<HasherCfg> = (0..prof.maps).map(|_| hashers(rng)).collect();
        let set_hashers: Vec<HasherCfg> = (0..prof.sets).map(|_| hashers(rng)).collect();
        let colliding = map_hashers.iter().chain(set_hashers.iter()).any(|h| h.mode == HashMode::AllCollide || h.mode == HashMode::LowEntropy);
        let uni_choices: &[u32] = if colliding { &[4, 8, 16, 32, 64] } else { &[4, 8, 16, 32, 64, 128, 256, 1024, 4096] };
        let mut universe = *rng.pick(uni_choices);
        universe = universe.min(prof.max_universe);
        if elem.is_zst() {
            universe = 1;
        }
        let cap0 = |rng: &mut Rng| -> usize {
            match rng.below(10) {
                0..=4 => 0,
                5 => 1,
                6 => {
                    let t = *rng.pick(&THRESHOLDS[..5]) as usize;
                    t - 1 + rng.below(3) as usize
                }
                7 => rng.range(2, 64) as usize,
                8 => rng.range(2, 600) as usize,
                _ => rng.range(1, 4096) as usize,
            }
        };
        let map_cap0 = (0..prof.maps).map(|_| cap0(rng)).collect();
        let set_cap0 = (0..prof.sets).map(|_| cap0(rng)).collect();
        Config {
            elem,
            universe,
            map_hashers,
            set_hashers,
            map_cap0,
            set_cap0,
            full_check_every: 1,
            chaos: None,
        }
    }

    pub fn key_present(&mut self, m: usize, set: bool) -> Option<u32> {
        let s = if set { &self.shadow.sets[m] } else { &self.shadow.maps[m] };
        if s.is_empty() {
            None
        } else {
            let i = self.rng.below(s.len() as u64) as usize;
            nth(s, i)
        }
    }

    pub fn key_any(&mut self) -> u32 {
        self.rng.below(self.cfg.universe as u64) as u32
    }

    pub fn key_absent(&mut self, m: usize, set: bool) -> u32 {
        for _ in 0..8 {
            let k = self.key_any();
            let s = if set { &self.shadow.sets[m] } else { &self.shadow.maps[m] };
            if !s.contains(&k) {
                return k;
            }
        }
        self.key_any()
    }

    /// A key selector: mostly present keys (often chosen by location), sometimes absent.
    pub fn keysel(&mut self, m: usize, set: bool, want_present_pct: u64) -> KeySel {
        if self.rng.chance(want_present_pct, 100) {
            let fb = self.key_present(m, set).unwrap_or_else(|| self.rng.below(self.cfg.universe as u64) as u32);
            match self.rng.below(10) {
                0..=3 => KeySel::Old(self.rng.below(24) as u32, fb),
                4 => KeySel::Main(self.rng.below(24) as u32, fb),
                _ => KeySel::Kv(fb),
            }
        } else {
            KeySel::Kv(self.key_absent(m, set))
        }
    }

    pub fn consume(&mut self) -> Consume {
        if !self.prof.cancel {
            return Consume::All;
        }
        let k = match self.rng.below(6) {
            0 => 0,
            1 => 1,
            2 => self.rng.below(4) as u32,
            3 => self.rng.below(12) as u32,
            _ => self.rng.below(64) as u32,
        };
        match self.rng.below(10) {
            0..=3 => Consume::All,
            4..=7 => Consume::DropAfter(k),
            _ => {
                if self.prof.forget {
                    Consume::ForgetAfter(k)
                } else {
                    Consume::DropAfter(k)
                }
            }
        }
    }

    pub fn pred(&mut self) -> Pred {
        match self.rng.below(12) {
            0 => Pred::None,
            1 => Pred::All,
            2 | 3 => Pred::OldOnly,
            4 => Pred::MainOnly,
            _ => Pred::Mask(self.rng.next_u64(), *self.rng.pick(&[10u8, 30, 50, 50, 70, 90])),
        }
    }

    pub fn size_arg(&mut self) -> Arg {
        if self.prof.huge_args && self.rng.chance(1, 4) {
            let d = self.rng.below(40) as usize;
            return match self.rng.below(4) {
                0 => Arg::NearMax(d),
                1 => Arg::NearIsize(d as i64 - 20),
                2 => Arg::NearElemMax(d as i64 - 20),
                _ => Arg::NearMax(self.rng.below(4) as usize),
            };
        }
        if self.prof.boundary_args && self.rng.chance(1, 2) {
            return match self.rng.below(9) {
                0 => Arg::Free(-1),
                1 => Arg::Free(0),
                2 => Arg::Free(1),
                3 => Arg::Len(0),
                4 => Arg::Cap(0),
                5 => Arg::TwoCap,
                6 => Arg::Abs(0),
                7 => Arg::Abs(1),
                _ => Arg::Cap(1),
            };
        }
        match self.rng.below(6) {
            0 => Arg::Abs(self.rng.below(4) as usize),
            1 | 2 => Arg::Abs(self.rng.below(40) as usize),
            3 | 4 => Arg::Abs(self.rng.below(300) as usize),
            _ => Arg::Abs(self.rng.below(4097) as usize),
        }
    }

    pub fn entry_chain(&mut self, present_guess: bool) -> Vec<EStep> {
        use EStep::*;
        let occ_terminal = [OccIntoMut, OccRemove, OccRemoveEntry, OccReplaceEntry, OccReplaceKey];
        let occ_mid = [OccKey, OccGet, OccGetMut, OccInsert, OccReplaceWithSome, OccReplaceWithNone];
        let vac_all = [VacKey, VacIntoKey, VacInsert, VacInsert];
        let e_all = [OrInsert, OrInsertWith, OrInsertWithKey, OrDefault, Key, InsertE, AndModify, AndReplaceSome, AndReplaceNone];
        let mut chain = Vec::new();
        let depth = self.rng.range(1, 4) as usize;
        let mut present = present_guess;
        for _ in 0..depth {
            let s = match self.rng.below(10) {
                0..=3 => *self.rng.pick(&e_all),
                4..=6 => {
                    if present {
                        *self.rng.pick(&occ_mid)
                    } else {
                        *self.rng.pick(&vac_all)
                    }
                }
                7 | 8 => {
                    if present {
                        *self.rng.pick(&occ_terminal)
                    } else {
                        VacInsert
                    }
                }
                _ => {
                    // the step for the *other* case: must be skipped by the interpreter
                    if present {
                        VacInsert
                    } else {
                        OccGet
                    }
                }
            };
            chain.push(s);
            match s {
                AndReplaceNone | OccReplaceWithNone => present = false,
                InsertE => present = true,
                _ => {}
            }
        }
        chain
    }

    pub fn raw_chain(&mut self, present_guess: bool) -> Vec<RStep> {
        use RStep::*;
        let e_all = [Insert, OrInsert, OrInsertWith, AndModify, AndReplaceSome, AndReplaceNone];
        let occ_mid = [OccKey, OccKeyMut, OccGet, OccGetMut, OccGetKeyValue, OccGetKeyValueMut, OccInsert, OccInsertKey, OccReplaceWithSome, OccReplaceWithNone];
        let occ_terminal = [OccIntoKey, OccIntoMut, OccIntoKeyValue, OccRemove, OccRemoveEntry];
        let vac_all = [VacInsert, VacInsertHashedNocheck, VacInsertWithHasher];
        let mut chain = Vec::new();
        let depth = self.rng.range(1, 4) as usize;
        let mut present = present_guess;
        for _ in 0..depth {
            let s = match self.rng.below(10) {
                0..=3 => *self.rng.pick(&e_all),
                4..=6 => {
                    if present {
                        *self.rng.pick(&occ_mid)
                    } else {
                        *self.rng.pick(&vac_all)
                    }
                }
                7 | 8 => {
                    if present {
                        *self.rng.pick(&occ_terminal)
                    } else {
                        *self.rng.pick(&vac_all)
                    }
                }
                _ => {
                    if present {
                        VacInsert
                    } else {
                        OccGet
                    }
                }
            };
            chain.push(s);
            match s {
                AndReplaceNone | OccReplaceWithNone => present = false,
                Insert => present = true,
                _ => {}
            }
        }
        chain
    }

    fn items(&mut self, m: usize, set: bool) -> Vec<(u32, u32)> {
        let n = match self.rng.below(5) {
            0 => 0,
            1 => 1,
            2 => self.rng.below(8),
            3 => self.rng.below(40),
            _ => self.rng.below(200),
        } as usize;
        let mut v = Vec::with_capacity(n);
        for _ in 0..n {
            let k = if self.rng.chance(1, 4) { self.key_present(m, set).unwrap_or(0) } else { self.key_any() };
            let p = self.payload();
            v.push((k, p));
        }
        v
    }

    pub fn gen_op(&mut self, g: G) -> Op {
        let nm = self.prof.maps.max(1);
        let ns = self.prof.sets.max(1);
        let m = self.rng.below(nm as u64) as usize;
        let s = self.rng.below(ns as u64) as usize;
        let (mu, su) = (m as u8, s as u8);
        let other = |rng: &mut Rng, x: usize, n: usize| -> u8 {
            if n < 2 {
                x as u8
            } else {
                ((x + 1 + rng.below(n as u64 - 1) as usize) % n) as u8
            }
        };
        match g {
            G::InsertNew => {
                let k = self.key_absent(m, false);
                self.shadow.maps[m].insert(k);
                Op::Insert { m: mu, k: KeySel::Kv(k), p: self.payload() }
            }
            G::InsertAny => {
                let k = self.keysel(m, false, 50);
                if let KeySel::Kv(kv) = k {
                    self.shadow.maps[m].insert(kv);
                }
                Op::Insert { m: mu, k, p: self.payload() }
            }
            G::Get => Op::Get { m: mu, k: self.keysel(m, false, 70) },
            G::GetMut => Op::GetMut { m: mu, k: self.keysel(m, false, 80), p: self.payload() },
            G::GetKeyValue => Op::GetKeyValue { m: mu, k: self.keysel(m, false, 70) },
            G::GetKeyValueMut => Op::GetKeyValueMut { m: mu, k: self.keysel(m, false, 80), p: self.payload() },
            G::ContainsKey => Op::ContainsKey { m: mu, k: self.keysel(m, false, 60) },
            G::Index => Op::Index { m: mu, k: self.keysel(m, false, 80) },
            G::Remove | G::RemoveEntry => {
                let k = self.keysel(m, false, 85);
                if let KeySel::Kv(kv) = k {
                    self.shadow.maps[m].remove(&kv);
                }
                if g == G::Remove {
                    Op::Remove { m: mu, k }
                } else {
                    Op::RemoveEntry { m: mu, k }
                }
            }
            G::Clear => {
                self.shadow.maps[m].clear();
                Op::Clear { m: mu }
            }
            G::Extend => {
                let items = self.items(m, false);
                for (k, _) in &items {
                    self.shadow.maps[m].insert(*k);
                }
                let by_ref = self.rng.chance(1, 3);
                let hint = if !by_ref && self.rng.chance(1, 3) { self.rng.range(1, 4) as u8 } else { 0 };
                if hint == 3 {
                    // the reservation fails: nothing is inserted
                    for (k, _) in &items {
                        let _ = k;
                    }
                }
                Op::Extend { m: mu, items, by_ref, hint }
            }
            G::FromIter => {
                let items = self.items(m, false);
                self.shadow.maps[m].clear();
                for (k, _) in &items {
                    self.shadow.maps[m].insert(*k);
                }
                let hint = if self.rng.chance(1, 3) { self.rng.range(1, 4) as u8 } else { 0 };
                Op::FromIter { m: mu, items, hint }
            }
            G::IterMutWrite => Op::IterMutWrite { m: mu, mask: self.rng.next_u64(), pct: *self.rng.pick(&[0u8, 30, 60, 100]), p: self.payload() << 8, values_mut: self.rng.chance(1, 2) },
            G::Entry => {
                let k = self.keysel(m, false, 60);
                let guess = match k {
                    KeySel::Kv(kv) => self.shadow.maps[m].contains(&kv),
                    _ => true,
                };
                let chain = self.entry_chain(guess);
                if let KeySel::Kv(kv) = k {
                    self.shadow.maps[m].insert(kv);
                }
                let p = self.payload() << 10;
                self.next_p += 1;
                Op::Entry { m: mu, k, chain, p }
            }
            G::RawMut => {
                let k = self.keysel(m, false, 60);
                let guess = match k {
                    KeySel::Kv(kv) => self.shadow.maps[m].contains(&kv),
                    _ => true,
                };
                let chain = self.raw_chain(guess);
                if let KeySel::Kv(kv) = k {
                    self.shadow.maps[m].insert(kv);
                }
                let how = *self.rng.pick(&[Lookup::FromKey, Lookup::FromKeyHashedNocheck, Lookup::FromHash]);
                let p = self.payload() << 10;
                Op::RawMut { m: mu, k, how, chain, p }
            }
            G::RawGet => Op::RawGet { m: mu, k: self.keysel(m, false, 70), how: *self.rng.pick(&[Lookup::FromKey, Lookup::FromKeyHashedNocheck, Lookup::FromHash]) },
            G::Retain => {
                let pred = self.pred();
                self.apply_pred_shadow(m, false, &pred, true);
                let mutate = if self.rng.chance(1, 2) { Some(self.payload() << 12) } else { None };
                Op::Retain { m: mu, pred, mutate }
            }
            G::DrainFilter => {
                let pred = self.pred();
                self.apply_pred_shadow(m, false, &pred, false);
                let mutate = if self.rng.chance(1, 2) { Some(self.payload() << 12) } else { None };
                let consume = self.consume();
                // fault: a destructor of a removed value panics while the iterator is being dropped
                let drop_panic = if matches!(consume, Consume::DropAfter(_)) && self.prof.drop_panics && self.rng.chance(1, 4) { Some(self.rng.range(1, 4) as u32) } else { None };
                Op::DrainFilter { m: mu, pred, mutate, consume, drop_panic }
            }
            G::Drain => {
                self.shadow.maps[m].clear();
                Op::Drain { m: mu, consume: self.consume() }
            }
            G::IntoIter => {
                self.shadow.maps[m].clear();
                Op::IntoIter { m: mu, consume: self.consume(), new_cap: if self.rng.chance(1, 2) { 0 } else { self.rng.below(64) as usize } }
            }
            G::Reserve => {
                let mut n = self.size_arg();
                if matches!(n, Arg::OomHuge(_)) {
                    n = Arg::Abs(7);
                }
                Op::Reserve { m: mu, n }
            }
            G::TryReserve => {
                let n = if self.prof.huge_args && self.rng.chance(1, 8) { Arg::OomHuge(self.rng.below(1000) as u32) } else { self.size_arg() };
                Op::TryReserve { m: mu, n, oom: self.prof.huge_args && self.rng.chance(1, 4) }
            }
            G::ShrinkTo => Op::ShrinkTo { m: mu, n: self.size_arg() },
            G::ShrinkToFit => Op::ShrinkToFit { m: mu },
            G::WithCapacity => {
                self.shadow.maps[m].clear();
                let n = match self.rng.below(4) {
                    0 => self.rng.below(4),
                    1 => self.rng.below(30),
                    2 => self.rng.below(300),
                    _ => self.rng.below(3000),
                } as usize;
                Op::WithCapacity { m: mu, n }
            }
            G::CloneTo | G::CloneFrom => {
                let dst = other(self.rng, m, nm);
                let src_shadow = self.shadow.maps[m].clone();
                if (dst as usize) != m {
                    self.shadow.maps[dst as usize] = src_shadow;
                }
                if g == G::CloneTo {
                    Op::CloneTo { src: mu, dst }
                } else {
                    Op::CloneFrom { src: mu, dst }
                }
            }
            G::IterCheck => {
                let kind = *self.rng.pick(&[IterKind::Iter, IterKind::IterMut, IterKind::Keys, IterKind::Values, IterKind::ValuesMut, IterKind::RefIntoIter, IterKind::MutIntoIter]);
                let clone_at = if self.rng.chance(1, 2) { Some(self.rng.below(20) as u32) } else { None };
                Op::IterCheck { m: mu, kind, clone_at }
            }
            G::EqCheck => Op::EqCheck { a: mu, b: other(self.rng, m, nm) },
            G::DebugCheck => Op::DebugCheck { m: mu },
            G::Probe => Op::Probe { m: mu, max: 5000 },
            // ---- sets
            G::SInsert => {
                let k = self.keysel(s, true, 40);
                if let KeySel::Kv(kv) = k {
                    self.shadow.sets[s].insert(kv);
                }
                Op::SInsert { s: su, k }
            }
            G::SReplace => {
                let k = self.keysel(s, true, 60);
                if let KeySel::Kv(kv) = k {
                    self.shadow.sets[s].insert(kv);
                }
                Op::SReplace { s: su, k }
            }
            G::SRemove | G::STake => {
                let k = self.keysel(s, true, 85);
                if let KeySel::Kv(kv) = k {
                    self.shadow.sets[s].remove(&kv);
                }
                if g == G::SRemove {
                    Op::SRemove { s: su, k }
                } else {
                    Op::STake { s: su, k }
                }
            }
            G::SGet => Op::SGet { s: su, k: self.keysel(s, true, 70) },
            G::SContains => Op::SContains { s: su, k: self.keysel(s, true, 60) },
            G::SGetOrInsert | G::SGetOrInsertOwned | G::SGetOrInsertWith => {
                let k = self.keysel(s, true, 50);
                if let KeySel::Kv(kv) = k {
                    self.shadow.sets[s].insert(kv);
                }
                match g {
                    G::SGetOrInsert => Op::SGetOrInsert { s: su, k },
                    G::SGetOrInsertOwned => Op::SGetOrInsertOwned { s: su, k },
                    _ => Op::SGetOrInsertWith { s: su, k },
                }
            }
            G::SRetain => {
                let pred = self.pred();
                self.apply_pred_shadow(s, true, &pred, true);
                Op::SRetain { s: su, pred }
            }
            G::SDrain => {
                self.shadow.sets[s].clear();
                Op::SDrain { s: su, consume: self.consume() }
            }
            G::SDrainFilter => {
                let pred = self.pred();
                self.apply_pred_shadow(s, true, &pred, false);
                let consume = self.consume();
                let drop_panic = if matches!(consume, Consume::DropAfter(_)) && self.prof.drop_panics && self.rng.chance(1, 4) { Some(self.rng.range(1, 3) as u32) } else { None };
                Op::SDrainFilter { s: su, pred, consume, drop_panic }
            }
            G::SIntoIter => {
                self.shadow.sets[s].clear();
                Op::SIntoIter { s: su, consume: self.consume(), new_cap: if self.rng.chance(1, 2) { 0 } else { self.rng.below(64) as usize } }
            }
            G::SExtend => {
                let items: Vec<u32> = self.items(s, true).into_iter().map(|x| x.0).collect();
                for k in &items {
                    self.shadow.sets[s].insert(*k);
                }
                let by_ref = self.rng.chance(1, 3);
                let hint = if !by_ref && self.rng.chance(1, 3) { self.rng.range(1, 4) as u8 } else { 0 };
                Op::SExtend { s: su, items, by_ref, hint }
            }
            G::SFromIter => {
                let items: Vec<u32> = self.items(s, true).into_iter().map(|x| x.0).collect();
                self.shadow.sets[s].clear();
                for k in &items {
                    self.shadow.sets[s].insert(*k);
                }
                let hint = if self.rng.chance(1, 3) { self.rng.range(1, 4) as u8 } else { 0 };
                Op::SFromIter { s: su, items, hint }
            }
            G::SClear => {
                self.shadow.sets[s].clear();
                Op::SClear { s: su }
            }
            G::SReserve => {
                let mut n = self.size_arg();
                if matches!(n, Arg::OomHuge(_)) {
                    n = Arg::Abs(7);
                }
                Op::SReserve { s: su, n }
            }
            G::STryReserve => Op::STryReserve { s: su, n: self.size_arg(), oom: self.prof.huge_args && self.rng.chance(1, 4) },
            G::SShrinkTo => Op::SShrinkTo { s: su, n: self.size_arg() },
            G::SShrinkToFit => Op::SShrinkToFit { s: su },
            G::SCloneTo | G::SCloneFrom => {
                let dst = other(self.rng, s, ns);
                let src_shadow = self.shadow.sets[s].clone();
                if (dst as usize) != s {
                    self.shadow.sets[dst as usize] = src_shadow;
                }
                if g == G::SCloneTo {
                    Op::SCloneTo { src: su, dst }
                } else {
                    Op::SCloneFrom { src: su, dst }
                }
            }
            G::SAlgebra => {
                let alg = *self.rng.pick(&[
                    SetAlg::Union,
                    SetAlg::Intersection,
                    SetAlg::Difference,
                    SetAlg::SymmetricDifference,
                    SetAlg::BitOr,
                    SetAlg::BitAnd,
                    SetAlg::BitXor,
                    SetAlg::Sub,
                    SetAlg::IsSubset,
                    SetAlg::IsSuperset,
                    SetAlg::IsDisjoint,
                    SetAlg::Eq,
                ]);
                Op::SAlgebra { a: su, b: other(self.rng, s, ns), alg }
            }
            G::SIterCheck => Op::SIterCheck { s: su, clone_at: if self.rng.chance(1, 2) { Some(self.rng.below(20) as u32) } else { None } },
            G::SDebugCheck => Op::SDebugCheck { s: su },
            G::SProbe => Op::SProbe { s: su, max: 5000 },
            G::SerdeMap => Op::SerdeMap { m: mu },
            G::SerdeSet => {
                let dst = other(self.rng, s, ns);
                let fail_at = if self.rng.chance(1, 3) { Some(self.rng.below(40) as u32) } else { None };
                // the destination ends up with the source's elements (or a prefix of them)
                let src_shadow = self.shadow.sets[s].clone();
                if (dst as usize) != s {
                    self.shadow.sets[dst as usize] = src_shadow;
                }
                Op::SerdeSet { s: su, dst, hint: self.rng.below(5) as u8, fail_at }
            }
        }
    }

    fn apply_pred_shadow(&mut self, m: usize, set: bool, pred: &Pred, retain: bool) {
        let s = if set { &mut self.shadow.sets[m] } else { &mut self.shadow.maps[m] };
        match *pred {
            Pred::None => {
                if retain {
                    s.clear()
                }
            }
            Pred::All => {
                if !retain {
                    s.clear()
                }
            }
            Pred::Mask(seed, pct) => {
                s.retain(|&k| crate::world::pred_mask(seed, pct, k) == retain);
            }
            _ => {}
        }
    }

    /// A prelude of fresh inserts that lands on threshold + 1 + j, or forces a split through
    /// reserve, so that the random tail starts with a resize in flight.
    pub fn prelude(&mut self, set: bool, slot: usize) {
        let uni = self.cfg.universe;
        if uni <= 4 {
            return;
        }
        let usable: Vec<u32> = THRESHOLDS.iter().copied().filter(|&t| t + 12 < uni).collect();
        let cap0 = if set { self.cfg.set_cap0[slot] } else { self.cfg.map_cap0[slot] };
        let su = slot as u8;
        let mut push_insert = |g: &mut Gen, kv: u32| {
            if set {
                g.shadow.sets[slot].insert(kv);
                g.ops.push(Op::SInsert { s: su, k: KeySel::Kv(kv) });
            } else {
                g.shadow.maps[slot].insert(kv);
                let p = g.payload();
                g.ops.push(Op::Insert { m: su, k: KeySel::Kv(kv), p });
            }
        };
        let start = self.rng.below(uni as u64) as u32;
        let stride = *self.rng.pick(&[1u32, 1, 3, 7]);
        let stride = if uni % stride == 0 && stride != 1 { 1 } else { stride };
        if cap0 == 0 && !usable.is_empty() && self.rng.chance(1, 7) {
            // tombstone churn: fill exactly to capacity (no growth yet), remove most elements
            // (the slots of a nearly full table become tombstones, so no free slot comes
            // back), then add fresh keys: the very next insertion has to grow a table that is
            // almost empty
            let t = *self.rng.pick(&usable);
            for i in 0..t {
                push_insert(self, (start + i * stride) % uni);
            }
            let pct = *self.rng.pick(&[0u8, 5, 10, 20, 30]);
            let seed = self.rng.next_u64();
            if set {
                self.shadow.sets[slot].retain(|&k| crate::world::pred_mask(seed, pct, k));
                self.ops.push(Op::SRetain { s: su, pred: Pred::Mask(seed, pct) });
            } else {
                self.shadow.maps[slot].retain(|&k| crate::world::pred_mask(seed, pct, k));
                self.ops.push(Op::Retain { m: su, pred: Pred::Mask(seed, pct), mutate: None });
            }
            for i in 0..self.rng.range(1, 4) as u32 {
                push_insert(self, (start + (t + 1 + i) * stride) % uni);
            }
        } else if cap0 == 0 && !usable.is_empty() && self.rng.chance(3, 4) {
            let t = *self.rng.pick(&usable);
            let j = self.rng.below(11) as u32;
            let n = (t + 1 + j).min(uni - 1);
            for i in 0..n {
                push_insert(self, (start + i * stride) % uni);
            }
        } else {
            let n = self.rng.range(1, 30.min(uni as u64 - 1)) as u32;
            for i in 0..n {
                push_insert(self, (start + i * stride) % uni);
            }
            let extra = match self.rng.below(3) {
                0 => Arg::Cap(1),
                1 => Arg::Free(1),
                _ => Arg::Abs(self.rng.below(200) as usize),
            };
            if set {
                self.ops.push(Op::SReserve { s: su, n: extra });
            } else {
                self.ops.push(Op::Reserve { m: su, n: extra });
            }
        }
    }
}

/// Draw a complete run schedule from `prof`.
pub fn generate(rng: &mut Rng, prof: &Profile) -> RunSpec {
    let cfg = Gen::draw_config(rng, prof);
    let shadow = Shadow { maps: vec![BTreeSet::new(); prof.maps.max(1)], sets: vec![BTreeSet::new(); prof.sets.max(1)] };
    // swarm: a random subset of the weighted kinds, always at least two
    let mut kinds: Vec<(G, u32)> = prof.weights.iter().copied().filter(|_| rng.chance(prof.keep_pct, 100)).collect();
    if kinds.len() < 2 {
        kinds = prof.weights.clone();
    }
    // ops that make no sense for this element class
    let kinds: Vec<(G, u32)> = kinds;
    let weights: Vec<u32> = kinds.iter().map(|k| k.1).collect();
    let colliding = cfg.map_hashers.iter().chain(cfg.set_hashers.iter()).any(|h| matches!(h.mode, HashMode::AllCollide | HashMode::LowEntropy));
    let len = if prof.long_runs && !colliding && cfg.elem == ElemClass::Plain && cfg.universe >= 1024 && rng.chance(1, 64) {
        rng.range(500, 4000) as usize
    } else {
        match rng.below(4) {
            0 => rng.range(3, 12) as usize,
            1 => rng.range(8, 30) as usize,
            _ => rng.range(10, prof.max_len as u64) as usize,
        }
    };
    // Zero-sized classes have one possible key: the interesting states (the element in the old
    // table, an emptied old table, a tombstone) last for a single call. Half of those runs
    // are built from episodes on one map and one set: insert; start a resize; then the
    // operations under test.
    let zst_focus = prof.zst_focus && cfg.elem.is_zst() && rng.chance(1, 2);
    let mut prof1 = prof.clone();
    if zst_focus {
        prof1.maps = prof.maps.min(1);
        prof1.sets = prof.sets.min(1);
    }
    let prof = &prof1;
    let mut g = Gen { rng, prof, cfg, shadow, next_p: 0, ops: Vec::new() };
    if zst_focus {
        let is_set_kind = |k: G| (k as u32) >= (G::SInsert as u32) && !matches!(k, G::SerdeMap | G::SerdeSet);
        while g.ops.len() < len {
            let on_set = prof.sets > 0 && (prof.maps == 0 || g.rng.chance(1, 3));
            let op = g.gen_op(if on_set { G::SInsert } else { G::InsertAny });
            g.ops.push(op);
            if g.rng.chance(3, 4) {
                let n = Arg::Abs(*g.rng.pick(&[3usize, 4, 8, 30, 100]));
                g.ops.push(if on_set { Op::SReserve { s: 0, n } } else { Op::Reserve { m: 0, n } });
            }
            for _ in 0..g.rng.range(1, 3) {
                // a kind of the swarm subset that acts on the same collection
                let mut k = kinds[g.rng.weighted(&weights)].0;
                for _ in 0..8 {
                    if is_set_kind(k) == on_set && !matches!(k, G::SerdeMap | G::SerdeSet) {
                        break;
                    }
                    k = kinds[g.rng.weighted(&weights)].0;
                }
                let op = g.gen_op(k);
                g.ops.push(op);
            }
        }
    } else {
        for m in 0..prof.maps {
            if g.rng.chance(prof.prelude_pct, 100) {
                g.prelude(false, m);
            }
        }
        for s in 0..prof.sets {
            if g.rng.chance(prof.prelude_pct, 100) {
                g.prelude(true, s);
            }
        }
        for _ in 0..len {
            let k = kinds[g.rng.weighted(&weights)].0;
            let op = g.gen_op(k);
            g.ops.push(op);
        }
    }
    if prof.end_probe {
        for m in 0..prof.maps {
            g.ops.push(Op::Probe { m: m as u8, max: 5000 });
        }
        for s in 0..prof.sets {
            g.ops.push(Op::SProbe { s: s as u8, max: 5000 });
        }
    }
    let cfg = g.cfg.clone();
    let mut ops = std::mem::take(&mut g.ops);
    // keep big universes affordable: full contents comparison less often on long runs
    let mut cfg = cfg;
    if ops.len() > 400 {
        cfg.full_check_every = 16;
    }
    ops.shrink_to_fit();
    RunSpec { cfg, ops, faults: Vec::new(), mode: None }
}

/// C14: the same target contents reached in three maps and three sets by different histories,
/// capacities, resize phases and hasher states; then observed; then minimally changed.
pub fn generate_c14(rng: &mut Rng) -> RunSpec {
    let mut prof = Profile::base();
    prof.maps = 3;
    prof.sets = 3;
    prof.elem = [6, 3, 1];
    let mut cfg = Gen::draw_config(rng, &prof);
    let uni = cfg.universe;
    // target contents
    let size = if uni == 1 {
        rng.below(2) as usize
    } else {
        let max = (uni as u64 * 3 / 4).min(260);
        (match rng.below(4) {
            0 => rng.below(4.min(max + 1)),
            1 => rng.below(20.min(max + 1)),
            _ => rng.below(max + 1),
        }) as usize
    };
    let mut keys: Vec<u32> = Vec::new();
    {
        let mut seen = BTreeSet::new();
        let mut guard = 0;
        while keys.len() < size && guard < size * 20 + 20 {
            guard += 1;
            let k = rng.below(uni as u64) as u32;
            if seen.insert(k) {
                keys.push(k);
            }
        }
    }
    let target: Vec<(u32, u32)> = keys.iter().enumerate().map(|(i, &k)| (k, 1000 + i as u32)).collect();
    let inset: BTreeSet<u32> = keys.iter().copied().collect();
    let mut ops: Vec<Op> = Vec::new();
    let mut tmp_p = 500_000u32;
    for slot in 0..3u8 {
        for set in [false, true] {
            let mut order = target.clone();
            // Fisher-Yates
            for i in (1..order.len()).rev() {
                let j = rng.below(i as u64 + 1) as usize;
                order.swap(i, j);
            }
            let mut detours: Vec<u32> = Vec::new();
            let style = rng.below(5); // 0: plain, 1: detours, 2: detours + capacity games, 3: extend, 4: build, retain away, rebuild
            if style == 4 {
                // first a throw-away population, possibly mid-resize, emptied through retain
                let n0 = rng.below(40) as u32;
                for i in 0..n0.min(uni) {
                    if set {
                        ops.push(Op::SInsert { s: slot, k: KeySel::Kv(i) });
                    } else {
                        tmp_p += 1;
                        ops.push(Op::Insert { m: slot, k: KeySel::Kv(i), p: tmp_p });
                    }
                }
                if rng.chance(1, 2) {
                    if set {
                        ops.push(Op::SReserve { s: slot, n: Arg::Abs(rng.below(40) as usize) });
                    } else {
                        ops.push(Op::Reserve { m: slot, n: Arg::Abs(rng.below(40) as usize) });
                    }
                }
                if set {
                    ops.push(Op::SRetain { s: slot, pred: Pred::None });
                } else {
                    ops.push(Op::Retain { m: slot, pred: Pred::None, mutate: None });
                }
            }
            if style == 3 && !order.is_empty() {
                if set {
                    ops.push(Op::SExtend { s: slot, items: order.iter().map(|x| x.0).collect(), by_ref: rng.chance(1, 2), hint: 0 });
                } else {
                    ops.push(Op::Extend { m: slot, items: order.clone(), by_ref: rng.chance(1, 2), hint: 0 });
                }
            } else {
                for &(kv, p) in &order {
                    if style >= 1 && uni > 1 && rng.chance(1, 5) {
                        let d = rng.below(uni as u64) as u32;
                        if !inset.contains(&d) && !detours.contains(&d) {
                            detours.push(d);
                            if set {
                                ops.push(Op::SInsert { s: slot, k: KeySel::Kv(d) });
                            } else {
                                tmp_p += 1;
                                ops.push(Op::Insert { m: slot, k: KeySel::Kv(d), p: tmp_p });
                            }
                        }
                    }
                    if style >= 1 && !set && rng.chance(1, 6) {
                        tmp_p += 1;
                        ops.push(Op::Insert { m: slot, k: KeySel::Kv(kv), p: tmp_p });
                    }
                    if set {
                        ops.push(Op::SInsert { s: slot, k: KeySel::Kv(kv) });
                    } else {
                        ops.push(Op::Insert { m: slot, k: KeySel::Kv(kv), p });
                    }
                    if style == 2 && rng.chance(1, 12) {
                        let op = match (rng.below(4), set) {
                            (0, false) => Op::Reserve { m: slot, n: Arg::Abs(rng.below(100) as usize) },
                            (1, false) => Op::ShrinkToFit { m: slot },
                            (2, false) => Op::ShrinkTo { m: slot, n: Arg::Len(rng.below(20) as i32) },
                            (_, false) => Op::Reserve { m: slot, n: Arg::Free(1) },
                            (0, true) => Op::SReserve { s: slot, n: Arg::Abs(rng.below(100) as usize) },
                            (1, true) => Op::SShrinkToFit { s: slot },
                            (2, true) => Op::SShrinkTo { s: slot, n: Arg::Len(rng.below(20) as i32) },
                            (_, true) => Op::SReserve { s: slot, n: Arg::Free(1) },
                        };
                        let was_reserve = matches!(op, Op::Reserve { .. } | Op::SReserve { .. });
                        ops.push(op);
                        if was_reserve && rng.chance(1, 2) {
                            // a second capacity call while (possibly) every element still sits
                            // in the old table and the main table is empty
                            let op2 = match (rng.below(3), set) {
                                (0, false) => Op::ShrinkToFit { m: slot },
                                (1, false) => Op::ShrinkTo { m: slot, n: Arg::Abs(rng.below(3) as usize) },
                                (_, false) => Op::Reserve { m: slot, n: Arg::Cap(1) },
                                (0, true) => Op::SShrinkToFit { s: slot },
                                (1, true) => Op::SShrinkTo { s: slot, n: Arg::Abs(rng.below(3) as usize) },
                                (_, true) => Op::SReserve { s: slot, n: Arg::Cap(1) },
                            };
                            ops.push(op2);
                        }
                    }
                    if !detours.is_empty() && rng.chance(1, 4) {
                        let d = detours.swap_remove(rng.below(detours.len() as u64) as usize);
                        if set {
                            ops.push(Op::SRemove { s: slot, k: KeySel::Kv(d) });
                        } else {
                            ops.push(Op::Remove { m: slot, k: KeySel::Kv(d) });
                        }
                    }
                }
            }
            for d in detours {
                if set {
                    ops.push(Op::SRemove { s: slot, k: KeySel::Kv(d) });
                } else {
                    ops.push(Op::Remove { m: slot, k: KeySel::Kv(d) });
                }
            }
            // final phase: often leave a resize in flight
            let split_now = rng.chance(1, 2);
            if split_now {
                let n = match rng.below(3) {
                    0 => Arg::Free(1),
                    1 => Arg::Cap(1),
                    _ => Arg::Abs(rng.below(300) as usize),
                };
                if set {
                    ops.push(Op::SReserve { s: slot, n });
                } else {
                    ops.push(Op::Reserve { m: slot, n });
                }
                if uni > 1 && rng.chance(1, 2) {
                    // move part of the old table: add and remove a key that is not in the target
                    for _ in 0..rng.range(1, 3) {
                        let d = rng.below(uni as u64) as u32;
                        if !inset.contains(&d) {
                            if set {
                                ops.push(Op::SInsert { s: slot, k: KeySel::Kv(d) });
                                ops.push(Op::SRemove { s: slot, k: KeySel::Kv(d) });
                            } else {
                                tmp_p += 1;
                                ops.push(Op::Insert { m: slot, k: KeySel::Kv(d), p: tmp_p });
                                ops.push(Op::Remove { m: slot, k: KeySel::Kv(d) });
                            }
                        }
                    }
                }
            }
        }
    }
    // sometimes one collection is (re)made from another by clone / clone_from: the copy adopts
    // the source's hasher state and must be just as indistinguishable
    if rng.chance(1, 3) {
        let src = rng.below(3) as u8;
        let dst = (src + 1 + rng.below(2) as u8) % 3;
        if rng.chance(1, 2) {
            ops.push(Op::CloneFrom { src, dst });
            ops.push(Op::SCloneFrom { src, dst });
        } else {
            ops.push(Op::CloneTo { src, dst });
            ops.push(Op::SCloneTo { src, dst });
        }
    }
    // the same value updates through replace_entry_with in every map (placed last, so that they
    // may hit elements still in the old table): contents stay equal by construction
    if !target.is_empty() && rng.chance(1, 2) {
        let nupd = rng.range(1, 3) as usize;
        for u in 0..nupd {
            let k = target[rng.below(target.len() as u64) as usize].0;
            let p = 2_000_000 + (u as u32) * 16;
            for slot in 0..3u8 {
                let ksel = if rng.chance(1, 2) { KeySel::Kv(k) } else { KeySel::Kv(k) };
                ops.push(Op::Entry { m: slot, k: ksel, chain: vec![EStep::AndReplaceSome], p });
            }
        }
    }
    let observe = |ops: &mut Vec<Op>, rng: &mut Rng| {
        for (a, b) in [(0u8, 1u8), (1, 2), (0, 2), (2, 0)] {
            ops.push(Op::EqCheck { a, b });
            ops.push(Op::SAlgebra { a, b, alg: SetAlg::Eq });
        }
        for m in 0..3u8 {
            ops.push(Op::DebugCheck { m });
            ops.push(Op::SDebugCheck { s: m });
            let kind = *rng.pick(&[IterKind::Iter, IterKind::IterMut, IterKind::Keys, IterKind::Values, IterKind::ValuesMut, IterKind::RefIntoIter]);
            ops.push(Op::IterCheck { m, kind, clone_at: None });
            ops.push(Op::SIterCheck { s: m, clone_at: None });
        }
    };
    observe(&mut ops, rng);
    // minimal difference: one value changed (preferably an element in the old table) in one map,
    // one element removed or added in one set
    if !target.is_empty() {
        let victim = rng.below(3) as u8;
        let fb = target[rng.below(target.len() as u64) as usize].0;
        let k = if rng.chance(2, 3) { KeySel::Old(rng.below(16) as u32, fb) } else { KeySel::Kv(fb) };
        if uni <= 1 || cfg.elem.is_zst() || rng.chance(1, 2) {
            ops.push(Op::GetMut { m: victim, k, p: 900_000 });
        } else {
            // same length, same values, one key exchanged for a key nobody holds
            let absent = (0..uni + 1).find(|x| !inset.contains(x)).unwrap_or(uni);
            let old = target[rng.below(target.len() as u64) as usize];
            ops.push(Op::Remove { m: victim, k: KeySel::Kv(old.0) });
            ops.push(Op::Insert { m: victim, k: KeySel::Kv(absent), p: old.1 });
        }
        let victim = rng.below(3) as u8;
        let k = if rng.chance(2, 3) { KeySel::Old(rng.below(16) as u32, fb) } else { KeySel::Kv(fb) };
        ops.push(Op::SRemove { s: victim, k });
    } else if uni > 0 {
        ops.push(Op::Insert { m: rng.below(3) as u8, k: KeySel::Kv(0), p: 900_000 });
        ops.push(Op::SInsert { s: rng.below(3) as u8, k: KeySel::Kv(0) });
    }
    observe(&mut ops, rng);
    cfg.full_check_every = if ops.len() > 400 { 16 } else { 1 };
    RunSpec { cfg, ops, faults: Vec::new(), mode: None }
}


/// C02/C03 thorough: one map grown across many table doublings (to ~2^17..2^18 elements) by
/// fresh insertions, interleaved with removals (tombstones), overwrites of old-table elements,
/// lookups and handle insertions; the per-call bounds are checked on every call, the contents
/// every 8192 steps.
pub fn generate_growth(rng: &mut Rng) -> RunSpec {
    let mut prof = Profile::base();
    prof.elem = [1, 0, 0];
    prof.hashers = [6, 0, 0, 2, 1];
    let mut cfg = Gen::draw_config(rng, &prof);
    cfg.universe = 1 << 20;
    cfg.map_cap0 = vec![if rng.chance(1, 2) { 0 } else { rng.below(100) as usize }];
    cfg.full_check_every = 8192;
    let target = (1u32 << 17) + rng.below(1 << 17) as u32;
    let mut ops: Vec<Op> = Vec::with_capacity(target as usize * 2);
    let mut next: u32 = 0;
    let mut p: u32 = 0;
    let remove_pct = *rng.pick(&[0u64, 5, 15, 30]);
    while next < target {
        let r = rng.below(100);
        p += 1;
        if r < remove_pct && next > 16 {
            // remove a recent or an old key (recent ones are likely still in the old table)
            let k = if rng.chance(1, 2) { next - 1 - rng.below(16.min(next as u64)) as u32 } else { rng.below(next as u64) as u32 };
            ops.push(Op::Remove { m: 0, k: KeySel::Kv(k) });
        } else if r < remove_pct + 6 && next > 0 {
            ops.push(Op::Insert { m: 0, k: KeySel::Kv(rng.below(next as u64) as u32), p });
        } else if r < remove_pct + 10 && next > 0 {
            ops.push(Op::Get { m: 0, k: KeySel::Kv(rng.below(next as u64 + 8) as u32) });
        } else if r < remove_pct + 13 {
            ops.push(Op::Entry { m: 0, k: KeySel::Kv(next), chain: vec![EStep::OrInsert], p: p << 4 });
            next += 1;
        } else if r < remove_pct + 15 {
            ops.push(Op::RawMut { m: 0, k: KeySel::Kv(next), how: Lookup::FromKey, chain: vec![RStep::VacInsert], p: p << 4 });
            next += 1;
        } else {
            ops.push(Op::Insert { m: 0, k: KeySel::Kv(next), p });
            next += 1;
        }
    }
    RunSpec { cfg, ops, faults: Vec::new(), mode: None }
}


/// C16: collections around serde's "cautious" size-hint clamp (4096 elements) and well beyond
/// it, in any resize phase, serialised, round-tripped and deserialised in place.
pub fn generate_serde_big(rng: &mut Rng) -> RunSpec {
    let mut prof = Profile::base();
    prof.elem = [1, 0, 0];
    prof.maps = 1;
    prof.sets = 3;
    prof.hashers = [6, 0, 0, 1, 1];
    let mut cfg = Gen::draw_config(rng, &prof);
    cfg.universe = 1 << 14;
    cfg.full_check_every = 1 << 20;
    let n = *rng.pick(&[4094u32, 4095, 4096, 4097, 4098, 5000, 7168, 7169, 9000]);
    let mut ops: Vec<Op> = Vec::new();
    let stride = *rng.pick(&[1u32, 3, 5]);
    for i in 0..n {
        ops.push(Op::Insert { m: 0, k: KeySel::Kv((i * stride) % (1 << 14)), p: i + 1 });
        ops.push(Op::SInsert { s: 0, k: KeySel::Kv((i * stride) % (1 << 14)) });
    }
    if rng.chance(1, 2) {
        ops.push(Op::Reserve { m: 0, n: Arg::Free(1) });
        ops.push(Op::SReserve { s: 0, n: Arg::Free(1) });
    }
    // a small destination in some phase
    for i in 0..rng.below(40) as u32 {
        ops.push(Op::SInsert { s: 1, k: KeySel::Kv(20_000 + i) });
    }
    ops.push(Op::SerdeMap { m: 0 });
    ops.push(Op::SerdeSet { s: 0, dst: 1, hint: rng.below(5) as u8, fail_at: None });
    ops.push(Op::SerdeSet { s: 0, dst: 2, hint: 0, fail_at: if rng.chance(1, 2) { Some(4096 + rng.below(3) as u32) } else { None } });
    RunSpec { cfg, ops, faults: Vec::new(), mode: None }
}
