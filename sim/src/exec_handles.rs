//! Entry and raw-entry method chains (C12 and the handle part of C01).

use crate::ctx::{self, Site};
use crate::elems::{KeyT, ValT, DEFAULT_PAYLOAD};
use crate::exec::*;
use crate::exec_map::{in_old, HashKvOf};
use crate::ops::*;
use crate::world::*;
use griddle::hash_map::{Entry, RawEntryMut};

enum ES<'a, K, V> {
    E(Entry<'a, K, V, crate::hasher::SimHasher>),
    R(&'a mut V),
    Done,
}

enum RS<'a, K, V> {
    E(RawEntryMut<'a, K, V, crate::hasher::SimHasher>),
    R(&'a mut K, &'a mut V),
    Done,
}

struct ChainOut {
    inserts: u32,
    res: String,
    cur: Option<MEntry>,
    inserted: bool,
    removed_old: usize,
    replace_with_none: bool,
    wrong: Vec<String>,
    /// `replace_key`/`replace_entry` on a handle made by `Entry::insert` panicked (cleanly)
    keyless_replace_panicked: bool,
    /// ... or returned: which key object is stored now is read back from the map
    adopt_key: bool,
}

impl<K: KeyT, V: ValT> World<K, V> {
    pub(crate) fn op_entry(&mut self, acc: &mut Acc, mi: usize, k: &KeySel, chain: &[EStep], p0: u32) {
        let kv = self.maps[mi].resolve_key(k);
        let before = self.maps[mi].m.verif_state();
        let start = self.maps[mi].model.get(&kv).copied();
        let was_old = start.is_some() && in_old(&self.maps[mi], kv);
        let key = K::make(kv);
        let arg_kid = key.oid();
        let slot = &mut self.maps[mi];
        let mut co_out = ChainOut { inserts: 0, res: String::new(), cur: start, inserted: false, removed_old: 0, replace_with_none: false, wrong: Vec::new(), keyless_replace_panicked: false, adopt_key: false };
        let o = &mut co_out;
        let co = call(|| {
            let mut cur = start;
            let mut in_old_now = was_old;
            // key object currently held by the handle (for vacant entries: the key that would be stored)
            let mut handle_kid = arg_kid;
            let mut handle_has_key = true;
            let e = sut(|| slot.m.entry(key));
            if matches!(e, Entry::Occupied(_)) != cur.is_some() {
                o.wrong.push(format!("entry({}): Occupied={} but model present={}", kv, matches!(e, Entry::Occupied(_)), cur.is_some()));
                return;
            }
            let mut st = ES::E(e);
            let mut trace = String::new();
            for (i, step) in chain.iter().enumerate() {
                let p = V::norm(p0.wrapping_add(i as u32));
                let e = match st {
                    ES::E(e) => e,
                    other => {
                        st = other;
                        break;
                    }
                };
                if matches!(e, Entry::Occupied(_)) != cur.is_some() {
                    o.wrong.push(format!("entry({}) step {}: Occupied={} but model present={}", kv, i, matches!(e, Entry::Occupied(_)), cur.is_some()));
                    return;
                }
                trace.push_str(&format!("{:?};", step));
                st = match *step {
                    EStep::OrInsert | EStep::OrInsertWith | EStep::OrInsertWithKey | EStep::OrDefault => {
                        let mut made: Option<u64> = None;
                        let r: &mut V = match *step {
                            EStep::OrInsert => {
                                let v = V::make(p);
                                made = Some(v.oid());
                                sut(|| e.or_insert(v))
                            }
                            EStep::OrInsertWith => sut(|| {
                                e.or_insert_with(|| {
                                    closure_body(|| {
                                        let v = V::make(p);
                                        made = Some(v.oid());
                                        v
                                    })
                                })
                            }),
                            EStep::OrInsertWithKey => sut(|| {
                                e.or_insert_with_key(|kk| {
                                    closure_body(|| {
                                        kk.check("or_insert_with_key");
                                        if kk.kv() != kv {
                                            ctx::note_expectation(format!("or_insert_with_key saw key {} for entry({})", kk.kv(), kv));
                                        }
                                        let v = V::make(p);
                                        made = Some(v.oid());
                                        v
                                    })
                                })
                            }),
                            _ => sut(|| e.or_default()),
                        };
                        r.check("or_insert*");
                        match cur {
                            Some(c) => {
                                if r.payload() != c.p || (r.oid() != 0 && r.oid() != c.vid) {
                                    o.wrong.push(format!("or_insert* on present key {}: payload={} id={} expected payload={} id={}", kv, r.payload(), r.oid(), c.p, c.vid));
                                }
                            }
                            None => {
                                let want = if matches!(step, EStep::OrDefault) { V::norm(DEFAULT_PAYLOAD) } else { p };
                                if r.payload() != want || (r.oid() != 0 && made.is_some() && Some(r.oid()) != made) {
                                    o.wrong.push(format!("or_insert* on absent key {}: reference shows payload={} expected {}", kv, r.payload(), want));
                                }
                                cur = Some(MEntry { kid: handle_kid, vid: r.oid(), p: want });
                                o.inserted = true;
                                o.inserts += 1;
                                in_old_now = false;
                            }
                        }
                        ES::R(r)
                    }
                    EStep::Key => {
                        sut(|| debug_to_sink(&e));
                        let kk = sut(|| e.key());
                        kk.check("Entry::key");
                        let want = match cur {
                            Some(c) => c.kid,
                            None => handle_kid,
                        };
                        if kk.kv() != kv || (kk.oid() != 0 && kk.oid() != want) {
                            o.wrong.push(format!("Entry::key() = {} id {} expected {} id {}", kk.kv(), kk.oid(), kv, want));
                        }
                        ES::E(e)
                    }
                    EStep::InsertE => {
                        let v = V::make(p);
                        let vid = v.oid();
                        let occ = sut(|| e.insert(v));
                        match cur {
                            Some(c) => cur = Some(MEntry { kid: c.kid, vid, p }),
                            None => {
                                cur = Some(MEntry { kid: handle_kid, vid, p });
                                o.inserted = true;
                                o.inserts += 1;
                                in_old_now = false;
                            }
                        }
                        handle_has_key = false;
                        let got = sut(|| occ.get());
                        if got.payload() != p || (got.oid() != 0 && got.oid() != vid) {
                            o.wrong.push(format!("Entry::insert({}) handle shows payload {}", p, got.payload()));
                        }
                        ES::E(Entry::Occupied(occ))
                    }
                    EStep::AndModify => {
                        let exp = cur;
                        let e2 = sut(|| {
                            e.and_modify(|v| {
                                closure_body(|| {
                                    v.check("and_modify");
                                    if let Some(c) = exp {
                                        if v.payload() != c.p {
                                            ctx::note_expectation(format!("and_modify saw payload {} expected {}", v.payload(), c.p));
                                        }
                                    } else {
                                        ctx::note_expectation("and_modify closure called on a vacant entry".to_string());
                                    }
                                    v.set_payload(p);
                                })
                            })
                        });
                        if let Some(c) = cur.as_mut() {
                            c.p = p;
                        }
                        ES::E(e2)
                    }
                    EStep::AndReplaceSome | EStep::AndReplaceNone | EStep::OccReplaceWithSome | EStep::OccReplaceWithNone => {
                        let some = matches!(step, EStep::AndReplaceSome | EStep::OccReplaceWithSome);
                        let exp = cur;
                        let mut newvid = 0u64;
                        let f = |kk: &K, v: V| -> Option<V> {
                            closure_body(|| {
                                kk.check("replace_entry_with key");
                                v.check("replace_entry_with value");
                                match exp {
                                    Some(c) => {
                                        if kk.kv() != kv || v.payload() != c.p || (v.oid() != 0 && (v.oid() != c.vid || kk.oid() != c.kid)) {
                                            ctx::note_expectation(format!("replace_entry_with saw ({},{}) expected ({},{})", kk.kv(), v.payload(), kv, c.p));
                                        }
                                    }
                                    None => ctx::note_expectation("replace_entry_with closure called on a vacant entry".to_string()),
                                }
                                drop(v);
                                if some {
                                    let nv = V::make(p);
                                    newvid = nv.oid();
                                    Some(nv)
                                } else {
                                    None
                                }
                            })
                        };
                        let e2 = match (e, matches!(step, EStep::AndReplaceSome | EStep::AndReplaceNone)) {
                            (e, true) => sut(|| e.and_replace_entry_with(f)),
                            (Entry::Occupied(occ), false) => sut(|| occ.replace_entry_with(f)),
                            (e, false) => e,
                        };
                        if let Some(c) = cur {
                            if some {
                                cur = Some(MEntry { kid: c.kid, vid: newvid, p });
                            } else {
                                cur = None;
                                handle_kid = c.kid;
                                handle_has_key = true;
                                o.replace_with_none = true;
                                if in_old_now {
                                    o.removed_old += 1;
                                    in_old_now = false;
                                }
                            }
                        }
                        ES::E(e2)
                    }
                    EStep::OccKey | EStep::OccGet | EStep::OccGetMut | EStep::OccInsert => match (e, cur) {
                        (Entry::Occupied(mut occ), Some(c)) => {
                            match *step {
                                EStep::OccKey => {
                                    let kk = sut(|| occ.key());
                                    kk.check("OccupiedEntry::key");
                                    if kk.kv() != kv || (kk.oid() != 0 && kk.oid() != c.kid) {
                                        o.wrong.push(format!("OccupiedEntry::key() = {} id {} expected id {}", kk.kv(), kk.oid(), c.kid));
                                    }
                                }
                                EStep::OccGet => {
                                    let v = sut(|| occ.get());
                                    v.check("OccupiedEntry::get");
                                    if v.payload() != c.p || (v.oid() != 0 && v.oid() != c.vid) {
                                        o.wrong.push(format!("OccupiedEntry::get() = {} expected {}", v.payload(), c.p));
                                    }
                                }
                                EStep::OccGetMut => {
                                    let v = sut(|| occ.get_mut());
                                    v.check("OccupiedEntry::get_mut");
                                    if v.payload() != c.p {
                                        o.wrong.push(format!("OccupiedEntry::get_mut() = {} expected {}", v.payload(), c.p));
                                    }
                                    v.set_payload(p);
                                    cur = Some(MEntry { p, ..c });
                                }
                                _ => {
                                    let nv = V::make(p);
                                    let vid = nv.oid();
                                    let old = sut(|| occ.insert(nv));
                                    old.check("OccupiedEntry::insert");
                                    if old.payload() != c.p || (old.oid() != 0 && old.oid() != c.vid) {
                                        o.wrong.push(format!("OccupiedEntry::insert returned {} expected {}", old.payload(), c.p));
                                    }
                                    drop(old);
                                    cur = Some(MEntry { kid: c.kid, vid, p });
                                }
                            }
                            ES::E(Entry::Occupied(occ))
                        }
                        (e, _) => ES::E(e),
                    },
                    EStep::OccIntoMut => match (e, cur) {
                        (Entry::Occupied(occ), Some(c)) => {
                            let r = sut(|| occ.into_mut());
                            r.check("OccupiedEntry::into_mut");
                            if r.payload() != c.p || (r.oid() != 0 && r.oid() != c.vid) {
                                o.wrong.push(format!("OccupiedEntry::into_mut() = {} expected {}", r.payload(), c.p));
                            }
                            ES::R(r)
                        }
                        (e, _) => ES::E(e),
                    },
                    EStep::OccRemove | EStep::OccRemoveEntry => match (e, cur) {
                        (Entry::Occupied(occ), Some(c)) => {
                            if matches!(step, EStep::OccRemove) {
                                let v = sut(|| occ.remove());
                                v.check("OccupiedEntry::remove");
                                if v.payload() != c.p || (v.oid() != 0 && v.oid() != c.vid) {
                                    o.wrong.push(format!("OccupiedEntry::remove() = {} expected {}", v.payload(), c.p));
                                }
                            } else {
                                let (kk, v) = sut(|| occ.remove_entry());
                                kk.check("OccupiedEntry::remove_entry");
                                v.check("OccupiedEntry::remove_entry");
                                if kk.kv() != kv || v.payload() != c.p || (v.oid() != 0 && (v.oid() != c.vid || kk.oid() != c.kid)) {
                                    o.wrong.push(format!("OccupiedEntry::remove_entry() = ({},{}) expected ({},{})", kk.kv(), v.payload(), kv, c.p));
                                }
                            }
                            cur = None;
                            if in_old_now {
                                o.removed_old += 1;
                                in_old_now = false;
                            }
                            ES::Done
                        }
                        (e, _) => ES::E(e),
                    },
                    EStep::OccReplaceEntry | EStep::OccReplaceKey => match (e, cur) {
                        (Entry::Occupied(occ), Some(c)) if handle_has_key => {
                            if matches!(step, EStep::OccReplaceEntry) {
                                let nv = V::make(p);
                                let vid = nv.oid();
                                let (ok, ov) = sut(|| occ.replace_entry(nv));
                                ok.check("replace_entry");
                                ov.check("replace_entry");
                                if ok.kv() != kv || ov.payload() != c.p || (ov.oid() != 0 && (ov.oid() != c.vid || ok.oid() != c.kid)) {
                                    o.wrong.push(format!("replace_entry returned ({},{}) expected ({},{})", ok.kv(), ov.payload(), kv, c.p));
                                }
                                cur = Some(MEntry { kid: handle_kid, vid, p });
                            } else {
                                let ok = sut(|| occ.replace_key());
                                ok.check("replace_key");
                                if ok.kv() != kv || (ok.oid() != 0 && ok.oid() != c.kid) {
                                    o.wrong.push(format!("replace_key returned {} id {} expected id {}", ok.kv(), ok.oid(), c.kid));
                                }
                                cur = Some(MEntry { kid: handle_kid, ..c });
                            }
                            ES::Done
                        }
                        (Entry::Occupied(occ), Some(c)) => {
                            // The handle came from `Entry::insert`, which keeps no key to put
                            // back: this is a clean `unwrap()`-on-`None` panic (inherited from
                            // hashbrown, which documents it) that leaves the map untouched. It
                            // must never be anything worse; a normal return is accepted too.
                            let is_entry = matches!(step, EStep::OccReplaceEntry);
                            let r = std::panic::catch_unwind(std::panic::AssertUnwindSafe(|| {
                                if is_entry {
                                    let nv = V::make(p);
                                    let vid = nv.oid();
                                    let (k, v) = sut(|| occ.replace_entry(nv));
                                    (k, Some((v, vid)))
                                } else {
                                    (sut(|| occ.replace_key()), None)
                                }
                            }));
                            match r {
                                Err(payload) => {
                                    if payload.is::<ctx::FuseBlown>() {
                                        std::panic::resume_unwind(payload);
                                    }
                                    // the SUT window is closed by the unwinding guards
                                    o.keyless_replace_panicked = true;
                                }
                                Ok((k, v)) => {
                                    k.check("replace_key/replace_entry on a handle made by Entry::insert");
                                    if let Some((v, vid)) = v {
                                        v.check("replace_entry on a handle made by Entry::insert");
                                        cur = Some(MEntry { vid, p, ..c });
                                    }
                                    o.adopt_key = true;
                                }
                            }
                            ES::Done
                        }
                        (e, _) => ES::E(e),
                    },
                    EStep::VacKey | EStep::VacIntoKey | EStep::VacInsert => match (e, cur) {
                        (Entry::Vacant(vac), None) => match *step {
                            EStep::VacKey => {
                                let kk = sut(|| vac.key());
                                kk.check("VacantEntry::key");
                                if kk.kv() != kv || (kk.oid() != 0 && kk.oid() != handle_kid) {
                                    o.wrong.push(format!("VacantEntry::key() = {} id {} expected id {}", kk.kv(), kk.oid(), handle_kid));
                                }
                                ES::E(Entry::Vacant(vac))
                            }
                            EStep::VacIntoKey => {
                                let kk = sut(|| vac.into_key());
                                kk.check("VacantEntry::into_key");
                                if kk.kv() != kv || (kk.oid() != 0 && kk.oid() != handle_kid) {
                                    o.wrong.push(format!("VacantEntry::into_key() = {} id {} expected id {}", kk.kv(), kk.oid(), handle_kid));
                                }
                                ES::Done
                            }
                            _ => {
                                let nv = V::make(p);
                                let vid = nv.oid();
                                let r = sut(|| vac.insert(nv));
                                r.check("VacantEntry::insert");
                                if r.payload() != p || (r.oid() != 0 && r.oid() != vid) {
                                    o.wrong.push(format!("VacantEntry::insert reference shows {} expected {}", r.payload(), p));
                                }
                                cur = Some(MEntry { kid: handle_kid, vid, p });
                                o.inserted = true;
                                o.inserts += 1;
                                in_old_now = false;
                                ES::R(r)
                            }
                        },
                        (e, _) => ES::E(e),
                    },
                };
                o.cur = cur;
            }
            // a reference returned by the chain is written through once more: the write must be
            // visible to later lookups (checked by the contents comparison that follows)
            if let ES::R(r) = st {
                let pw = V::norm(p0.wrapping_add(0x100));
                r.set_payload(pw);
                if let Some(c) = cur.as_mut() {
                    c.p = pw;
                }
            }
            o.cur = cur;
            o.res = trace;
        });
        let stats = (co.hashes, co.alloc.allocs);
        match co.result {
            Ok(()) => {
                for w in co_out.wrong.drain(..) {
                    acc.wrong(w);
                }
                acc.out.res = format!("{} => {:?}", co_out.res, co_out.cur.map(|c| c.p));
                if co_out.keyless_replace_panicked {
                    acc.probe("replace_key-on-handle-from-entry-insert-panicked-cleanly");
                    // C12: "every accessor of the handle (.., replace_*) acts on that same
                    // element", also for the occupied handle an inserting call returned - this
                    // one panics instead (known finding F1; the map is untouched, the run goes on)
                    acc.anomaly("keyless-replace-panic", format!("entry({}).insert(v) on an absent key returned an occupied handle whose replace_key()/replace_entry() panicked (unwrap on None) instead of acting on the element", kv));
                }
                let slot = &mut self.maps[mi];
                if co_out.adopt_key {
                    if let (Some(c), Some((k, _))) = (co_out.cur.as_mut(), slot.m.get_key_value(&K::probe(kv))) {
                        c.kid = k.oid();
                    }
                }
                match co_out.cur {
                    Some(c) => {
                        slot.model.insert(kv, c);
                    }
                    None => {
                        slot.model.remove(&kv);
                    }
                }
                if co_out.inserted && !before.split && slot.m.verif_state().split {
                    acc.probe("growth-triggered-by-entry-insert");
                }
                if was_old {
                    acc.probe("entry-on-old-table-element");
                }
                let mut cost = if co_out.inserted { Cost::KeyAdding } else { Cost::Constant };
                if co_out.keyless_replace_panicked {
                    // (the panic machinery allocates; the work bounds do not speak about a call
                    // that panics)
                    cost = Cost::Exempt;
                }
                acc.out.multi_insert = co_out.inserts > 1;
                self.post_map(acc, mi, before, stats, cost, co_out.inserted, co_out.removed_old, co_out.replace_with_none);
            }
            Err(pn) => self.handle_panic(acc, pn, &[]),
        }
    }

    pub(crate) fn op_raw_mut(&mut self, acc: &mut Acc, mi: usize, k: &KeySel, how: Lookup, chain: &[RStep], p0: u32) {
        let kv = self.maps[mi].resolve_key(k);
        let before = self.maps[mi].m.verif_state();
        let start = self.maps[mi].model.get(&kv).copied();
        let was_old = start.is_some() && in_old(&self.maps[mi], kv);
        let probe = K::probe(kv);
        let slot = &mut self.maps[mi];
        let hs = *slot.m.hasher();
        let hash = hs.hash_kv_of(&probe);
        let mut co_out = ChainOut { inserts: 0, res: String::new(), cur: start, inserted: false, removed_old: 0, replace_with_none: false, wrong: Vec::new(), keyless_replace_panicked: false, adopt_key: false };
        let o = &mut co_out;
        let co = call(|| {
            let mut cur = start;
            let mut in_old_now = was_old;
            let e = match how {
                Lookup::FromKey => sut(|| slot.m.raw_entry_mut().from_key(&probe)),
                Lookup::FromKeyHashedNocheck => sut(|| slot.m.raw_entry_mut().from_key_hashed_nocheck(hash, &probe)),
                Lookup::FromHash => sut(|| {
                    slot.m.raw_entry_mut().from_hash(hash, |q| {
                        ctx::callback(Site::Eq);
                        q.kv() == kv
                    })
                }),
            };
            let mut st = RS::E(e);
            let mut trace = String::new();
            for (i, step) in chain.iter().enumerate() {
                let p = V::norm(p0.wrapping_add(i as u32));
                let e = match st {
                    RS::E(e) => e,
                    other => {
                        st = other;
                        break;
                    }
                };
                if matches!(e, RawEntryMut::Occupied(_)) != cur.is_some() {
                    o.wrong.push(format!("raw_entry_mut({}) step {}: Occupied={} but model present={}", kv, i, matches!(e, RawEntryMut::Occupied(_)), cur.is_some()));
                    return;
                }
                trace.push_str(&format!("{:?};", step));
                st = match *step {
                    RStep::Insert => {
                        let nk = K::make(kv);
                        let nv = V::make(p);
                        let (nkid, nvid) = (nk.oid(), nv.oid());
                        let mut occ = sut(|| e.insert(nk, nv));
                        match cur {
                            Some(c) => cur = Some(MEntry { kid: c.kid, vid: nvid, p }),
                            None => {
                                cur = Some(MEntry { kid: nkid, vid: nvid, p });
                                o.inserted = true;
                                o.inserts += 1;
                                in_old_now = false;
                            }
                        }
                        let (gk, gv) = sut(|| occ.get_key_value());
                        let c = cur.unwrap();
                        if gk.kv() != kv || gv.payload() != p || (gv.oid() != 0 && (gv.oid() != c.vid || gk.oid() != c.kid)) {
                            o.wrong.push(format!("RawEntryMut::insert handle shows ({},{}) expected ({},{})", gk.kv(), gv.payload(), kv, p));
                        }
                        RS::E(RawEntryMut::Occupied(occ))
                    }
                    RStep::OrInsert | RStep::OrInsertWith => {
                        let mut made: Option<(u64, u64)> = None;
                        let (rk, rv) = if matches!(step, RStep::OrInsert) {
                            let nk = K::make(kv);
                            let nv = V::make(p);
                            made = Some((nk.oid(), nv.oid()));
                            sut(|| e.or_insert(nk, nv))
                        } else {
                            sut(|| {
                                e.or_insert_with(|| {
                                    closure_body(|| {
                                        let nk = K::make(kv);
                                        let nv = V::make(p);
                                        made = Some((nk.oid(), nv.oid()));
                                        (nk, nv)
                                    })
                                })
                            })
                        };
                        rk.check("raw or_insert key");
                        rv.check("raw or_insert value");
                        match cur {
                            Some(c) => {
                                if rk.kv() != kv || rv.payload() != c.p || (rv.oid() != 0 && (rv.oid() != c.vid || rk.oid() != c.kid)) {
                                    o.wrong.push(format!("raw or_insert on present key {}: got ({},{}) expected payload {}", kv, rk.kv(), rv.payload(), c.p));
                                }
                            }
                            None => {
                                let (nkid, nvid) = made.unwrap_or((0, 0));
                                if rk.kv() != kv || rv.payload() != p || (rv.oid() != 0 && (rv.oid() != nvid || rk.oid() != nkid)) {
                                    o.wrong.push(format!("raw or_insert on absent key {}: got ({},{}) expected payload {}", kv, rk.kv(), rv.payload(), p));
                                }
                                cur = Some(MEntry { kid: nkid, vid: nvid, p });
                                o.inserted = true;
                                o.inserts += 1;
                                in_old_now = false;
                            }
                        }
                        RS::R(rk, rv)
                    }
                    RStep::AndModify => {
                        let exp = cur;
                        let e2 = sut(|| {
                            e.and_modify(|kk, v| {
                                closure_body(|| {
                                    kk.check("raw and_modify");
                                    v.check("raw and_modify");
                                    match exp {
                                        Some(c) if v.payload() == c.p && kk.kv() == kv => {}
                                        _ => ctx::note_expectation(format!("raw and_modify saw ({},{})", kk.kv(), v.payload())),
                                    }
                                    v.set_payload(p);
                                })
                            })
                        });
                        if let Some(c) = cur.as_mut() {
                            c.p = p;
                        }
                        RS::E(e2)
                    }
                    RStep::AndReplaceSome | RStep::AndReplaceNone | RStep::OccReplaceWithSome | RStep::OccReplaceWithNone => {
                        let some = matches!(step, RStep::AndReplaceSome | RStep::OccReplaceWithSome);
                        let exp = cur;
                        let mut newvid = 0u64;
                        let f = |kk: &K, v: V| -> Option<V> {
                            closure_body(|| {
                                kk.check("raw replace_entry_with key");
                                v.check("raw replace_entry_with value");
                                match exp {
                                    Some(c) if kk.kv() == kv && v.payload() == c.p && (v.oid() == 0 || (v.oid() == c.vid && kk.oid() == c.kid)) => {}
                                    _ => ctx::note_expectation(format!("raw replace_entry_with saw ({},{})", kk.kv(), v.payload())),
                                }
                                drop(v);
                                if some {
                                    let nv = V::make(p);
                                    newvid = nv.oid();
                                    Some(nv)
                                } else {
                                    None
                                }
                            })
                        };
                        let e2 = match (e, matches!(step, RStep::AndReplaceSome | RStep::AndReplaceNone)) {
                            (e, true) => sut(|| e.and_replace_entry_with(f)),
                            (RawEntryMut::Occupied(occ), false) => sut(|| occ.replace_entry_with(f)),
                            (e, false) => e,
                        };
                        if let Some(c) = cur {
                            if some {
                                cur = Some(MEntry { kid: c.kid, vid: newvid, p });
                            } else {
                                cur = None;
                                o.replace_with_none = true;
                                if in_old_now {
                                    o.removed_old += 1;
                                    in_old_now = false;
                                }
                            }
                        }
                        RS::E(e2)
                    }
                    RStep::OccKey | RStep::OccKeyMut | RStep::OccGet | RStep::OccGetMut | RStep::OccGetKeyValue | RStep::OccGetKeyValueMut | RStep::OccInsert | RStep::OccInsertKey => match (e, cur) {
                        (RawEntryMut::Occupied(mut occ), Some(c)) => {
                            match *step {
                                RStep::OccKey => {
                                    let kk = sut(|| occ.key());
                                    kk.check("raw key");
                                    if kk.kv() != kv || (kk.oid() != 0 && kk.oid() != c.kid) {
                                        o.wrong.push(format!("raw key() = {} id {} expected id {}", kk.kv(), kk.oid(), c.kid));
                                    }
                                }
                                RStep::OccKeyMut => {
                                    let nk = K::make(kv);
                                    let nkid = nk.oid();
                                    let kk = sut(|| occ.key_mut());
                                    kk.check("raw key_mut");
                                    if kk.kv() != kv || (kk.oid() != 0 && kk.oid() != c.kid) {
                                        o.wrong.push(format!("raw key_mut() = {} id {} expected id {}", kk.kv(), kk.oid(), c.kid));
                                    }
                                    *kk = nk;
                                    cur = Some(MEntry { kid: nkid, ..c });
                                }
                                RStep::OccGet => {
                                    let v = sut(|| occ.get());
                                    v.check("raw get");
                                    if v.payload() != c.p || (v.oid() != 0 && v.oid() != c.vid) {
                                        o.wrong.push(format!("raw get() = {} expected {}", v.payload(), c.p));
                                    }
                                }
                                RStep::OccGetMut => {
                                    let v = sut(|| occ.get_mut());
                                    v.check("raw get_mut");
                                    if v.payload() != c.p {
                                        o.wrong.push(format!("raw get_mut() = {} expected {}", v.payload(), c.p));
                                    }
                                    v.set_payload(p);
                                    cur = Some(MEntry { p, ..c });
                                }
                                RStep::OccGetKeyValue => {
                                    let (kk, v) = sut(|| occ.get_key_value());
                                    kk.check("raw get_key_value");
                                    v.check("raw get_key_value");
                                    if kk.kv() != kv || v.payload() != c.p || (v.oid() != 0 && (v.oid() != c.vid || kk.oid() != c.kid)) {
                                        o.wrong.push(format!("raw get_key_value() = ({},{}) expected ({},{})", kk.kv(), v.payload(), kv, c.p));
                                    }
                                }
                                RStep::OccGetKeyValueMut => {
                                    let (kk, v) = sut(|| occ.get_key_value_mut());
                                    kk.check("raw get_key_value_mut");
                                    v.check("raw get_key_value_mut");
                                    if kk.kv() != kv || v.payload() != c.p {
                                        o.wrong.push(format!("raw get_key_value_mut() = ({},{}) expected ({},{})", kk.kv(), v.payload(), kv, c.p));
                                    }
                                    v.set_payload(p);
                                    cur = Some(MEntry { p, ..c });
                                }
                                RStep::OccInsert => {
                                    let nv = V::make(p);
                                    let vid = nv.oid();
                                    let old = sut(|| occ.insert(nv));
                                    old.check("raw insert");
                                    if old.payload() != c.p || (old.oid() != 0 && old.oid() != c.vid) {
                                        o.wrong.push(format!("raw occupied insert returned {} expected {}", old.payload(), c.p));
                                    }
                                    drop(old);
                                    cur = Some(MEntry { kid: c.kid, vid, p });
                                }
                                _ => {
                                    let nk = K::make(kv);
                                    let nkid = nk.oid();
                                    let old = sut(|| occ.insert_key(nk));
                                    old.check("raw insert_key");
                                    if old.kv() != kv || (old.oid() != 0 && old.oid() != c.kid) {
                                        o.wrong.push(format!("raw insert_key returned {} id {} expected id {}", old.kv(), old.oid(), c.kid));
                                    }
                                    drop(old);
                                    cur = Some(MEntry { kid: nkid, ..c });
                                }
                            }
                            RS::E(RawEntryMut::Occupied(occ))
                        }
                        (e, _) => RS::E(e),
                    },
                    RStep::OccIntoKey | RStep::OccIntoMut | RStep::OccIntoKeyValue => match (e, cur) {
                        (RawEntryMut::Occupied(occ), Some(c)) => match *step {
                            RStep::OccIntoKey => {
                                let kk = sut(|| occ.into_key());
                                kk.check("raw into_key");
                                if kk.kv() != kv || (kk.oid() != 0 && kk.oid() != c.kid) {
                                    o.wrong.push(format!("raw into_key() = {} id {} expected id {}", kk.kv(), kk.oid(), c.kid));
                                }
                                RS::Done
                            }
                            RStep::OccIntoMut => {
                                let v = sut(|| occ.into_mut());
                                v.check("raw into_mut");
                                if v.payload() != c.p || (v.oid() != 0 && v.oid() != c.vid) {
                                    o.wrong.push(format!("raw into_mut() = {} expected {}", v.payload(), c.p));
                                }
                                let pw = V::norm(p0.wrapping_add(0x100));
                                v.set_payload(pw);
                                cur = Some(MEntry { p: pw, ..c });
                                RS::Done
                            }
                            _ => {
                                let (kk, v) = sut(|| occ.into_key_value());
                                kk.check("raw into_key_value");
                                v.check("raw into_key_value");
                                if kk.kv() != kv || v.payload() != c.p || (v.oid() != 0 && (v.oid() != c.vid || kk.oid() != c.kid)) {
                                    o.wrong.push(format!("raw into_key_value() = ({},{}) expected ({},{})", kk.kv(), v.payload(), kv, c.p));
                                }
                                RS::R(kk, v)
                            }
                        },
                        (e, _) => RS::E(e),
                    },
                    RStep::OccRemove | RStep::OccRemoveEntry => match (e, cur) {
                        (RawEntryMut::Occupied(occ), Some(c)) => {
                            if matches!(step, RStep::OccRemove) {
                                let v = sut(|| occ.remove());
                                v.check("raw remove");
                                if v.payload() != c.p || (v.oid() != 0 && v.oid() != c.vid) {
                                    o.wrong.push(format!("raw remove() = {} expected {}", v.payload(), c.p));
                                }
                            } else {
                                let (kk, v) = sut(|| occ.remove_entry());
                                kk.check("raw remove_entry");
                                v.check("raw remove_entry");
                                if kk.kv() != kv || v.payload() != c.p || (v.oid() != 0 && (v.oid() != c.vid || kk.oid() != c.kid)) {
                                    o.wrong.push(format!("raw remove_entry() = ({},{}) expected ({},{})", kk.kv(), v.payload(), kv, c.p));
                                }
                            }
                            cur = None;
                            if in_old_now {
                                o.removed_old += 1;
                                in_old_now = false;
                            }
                            RS::Done
                        }
                        (e, _) => RS::E(e),
                    },
                    RStep::VacInsert | RStep::VacInsertHashedNocheck | RStep::VacInsertWithHasher => match (e, cur) {
                        (RawEntryMut::Vacant(vac), None) => {
                            let nk = K::make(kv);
                            let nv = V::make(p);
                            let (nkid, nvid) = (nk.oid(), nv.oid());
                            let (rk, rv) = match *step {
                                RStep::VacInsert => sut(|| vac.insert(nk, nv)),
                                RStep::VacInsertHashedNocheck => sut(|| vac.insert_hashed_nocheck(hash, nk, nv)),
                                _ => sut(|| {
                                    vac.insert_with_hasher(hash, nk, nv, |q| {
                                        use std::hash::BuildHasher;
                                        hs.hash_one(q)
                                    })
                                }),
                            };
                            rk.check("raw vacant insert key");
                            rv.check("raw vacant insert value");
                            if rk.kv() != kv || rv.payload() != p || (rv.oid() != 0 && (rv.oid() != nvid || rk.oid() != nkid)) {
                                o.wrong.push(format!("raw vacant insert returned ({},{}) expected ({},{})", rk.kv(), rv.payload(), kv, p));
                            }
                            cur = Some(MEntry { kid: nkid, vid: nvid, p });
                            o.inserted = true;
                                o.inserts += 1;
                            in_old_now = false;
                            RS::R(rk, rv)
                        }
                        (e, _) => RS::E(e),
                    },
                };
                o.cur = cur;
            }
            if let RS::R(_rk, rv) = st {
                let pw = V::norm(p0.wrapping_add(0x100));
                rv.set_payload(pw);
                if let Some(c) = cur.as_mut() {
                    c.p = pw;
                }
            }
            o.cur = cur;
            o.res = trace;
        });
        let stats = (co.hashes, co.alloc.allocs);
        match co.result {
            Ok(()) => {
                for w in co_out.wrong.drain(..) {
                    acc.wrong(w);
                }
                acc.out.res = format!("{} => {:?}", co_out.res, co_out.cur.map(|c| c.p));
                let slot = &mut self.maps[mi];
                match co_out.cur {
                    Some(c) => {
                        slot.model.insert(kv, c);
                    }
                    None => {
                        slot.model.remove(&kv);
                    }
                }
                if co_out.inserted && !before.split && slot.m.verif_state().split {
                    acc.probe("growth-triggered-by-raw-entry-insert");
                }
                if was_old {
                    acc.probe("raw-entry-on-old-table-element");
                }
                let cost = if co_out.inserted { Cost::KeyAdding } else { Cost::Constant };
                acc.out.multi_insert = co_out.inserts > 1;
                self.post_map(acc, mi, before, stats, cost, co_out.inserted, co_out.removed_old, co_out.replace_with_none);
            }
            Err(pn) => self.handle_panic(acc, pn, &[]),
        }
    }
}
