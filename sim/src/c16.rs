//! C16: serde round trip (feature `serde`), on the Plain element class.
//! Token streams via serde_test; deserialize_in_place via an in-memory stream the simulator
//! owns (lying size hints, failure at the k-th element).

use crate::ctx;
use crate::elems::{ElemClass, KeyT, PVal, ValT};
use crate::exec::Acc;
use crate::exec_map::two_mut;
use crate::ops::*;
use crate::world::*;
use serde::de::value::Error as ValueError;
use serde::de::{DeserializeSeed, Deserializer, IntoDeserializer, SeqAccess, Visitor};
use serde::Deserialize;
use serde_test::Token;
use std::any::Any;
use std::collections::BTreeMap;

/// Element types the serde harness can drive: how they look as serde_test tokens.
pub trait Tok: Copy + Ord + std::fmt::Debug + serde::Serialize + for<'de> serde::Deserialize<'de> + for<'de> IntoDeserializer<'de, ValueError> + 'static {
    fn push_tokens(&self, out: &mut Vec<Token>);
}
impl Tok for u32 {
    fn push_tokens(&self, out: &mut Vec<Token>) {
        out.push(Token::U32(*self));
    }
}
impl Tok for () {
    fn push_tokens(&self, out: &mut Vec<Token>) {
        out.push(Token::Unit);
    }
}
pub trait TokV: Copy + PartialEq + std::fmt::Debug + serde::Serialize + for<'de> serde::Deserialize<'de> + 'static {
    fn push_tokens(&self, out: &mut Vec<Token>);
}
impl TokV for PVal {
    fn push_tokens(&self, out: &mut Vec<Token>) {
        out.push(Token::NewtypeStruct { name: "PVal" });
        out.push(Token::U32(self.0));
    }
}
impl TokV for () {
    fn push_tokens(&self, out: &mut Vec<Token>) {
        out.push(Token::Unit);
    }
}

struct LyingSeq<T> {
    items: Vec<T>,
    pos: usize,
    hint: u8,
    fail_at: Option<u32>,
    delivered: std::rc::Rc<std::cell::Cell<usize>>,
}

impl<'de, E: Tok> SeqAccess<'de> for LyingSeq<E> {
    type Error = ValueError;
    fn next_element_seed<T: DeserializeSeed<'de>>(&mut self, seed: T) -> Result<Option<T::Value>, ValueError> {
        let _g = crate::alloc::HarnessGuard::new();
        if self.fail_at == Some(self.pos as u32) {
            return Err(serde::de::Error::custom("simulated stream failure"));
        }
        if self.pos >= self.items.len() {
            return Ok(None);
        }
        let v = self.items[self.pos];
        self.pos += 1;
        self.delivered.set(self.pos);
        seed.deserialize(v.into_deserializer()).map(Some)
    }
    fn size_hint(&self) -> Option<usize> {
        let left = self.items.len() - self.pos;
        match self.hint {
            0 => Some(left),
            1 => None,
            2 => Some(0),
            3 => Some(left / 2),
            _ => Some(usize::MAX),
        }
    }
}

struct SeqDe<E>(LyingSeq<E>);

impl<'de, E: Tok> Deserializer<'de> for SeqDe<E> {
    type Error = ValueError;
    fn deserialize_any<V: Visitor<'de>>(self, visitor: V) -> Result<V::Value, ValueError> {
        visitor.visit_seq(self.0)
    }
    serde::forward_to_deserialize_any! {
        bool i8 i16 i32 i64 i128 u8 u16 u32 u64 u128 f32 f64 char str string bytes byte_buf option unit
        unit_struct newtype_struct seq tuple tuple_struct map struct enum identifier ignored_any
    }
}

pub fn dispatch_serde<K: KeyT, V: ValT>(w: &mut World<K, V>, acc: &mut Acc, op: &Op) {
    let any: &mut dyn Any = w;
    if K::CLASS == ElemClass::Plain {
        let w: &mut World<u32, PVal> = any.downcast_mut().expect("plain world");
        serde_ops::<u32, PVal>(w, acc, op);
    } else if K::CLASS == ElemClass::Zst {
        let w: &mut World<(), ()> = any.downcast_mut().expect("zst world");
        serde_ops::<(), ()>(w, acc, op);
    } else {
        acc.out.res = "skipped (serde harness runs on the Plain and Zst element classes)".to_string();
    }
}

fn serde_ops<K2: KeyT + Tok, V2: ValT + TokV>(w: &mut World<K2, V2>, acc: &mut Acc, op: &Op) {
    match op {
        Op::SerdeMap { m } => {
            let mi = *m as usize;
            let h = w.cfg.map_hashers[mi].clone();
            ctx::with(|c| c.default_hasher = (h.seed, h.mode as u8));
            let slot = &w.maps[mi];
            let st = slot.m.verif_state();
            acc.out.before = Some(st);
            let r = call(|| {
                // expected tokens: exact length, then each element once, in iteration order
                let mut tokens = vec![Token::Map { len: Some(sut(|| slot.m.len())) }];
                let mut n = 0usize;
                for (k, v) in sut(|| slot.m.iter()) {
                    Tok::push_tokens(k, &mut tokens);
                    TokV::push_tokens(v, &mut tokens);
                    n += 1;
                }
                tokens.push(Token::MapEnd);
                sut(|| serde_test::assert_ser_tokens(&slot.m, &tokens));
                sut(|| serde_test::assert_de_tokens(&slot.m, &tokens));
                // A stream may repeat a key (not something griddle emits, but the result must
                // still be a map: every key once). Which value wins is not specified here:
                // the later one (what `insert` does) or the earlier one are both accepted.
                if n >= 1 {
                    let d = n.min(3);
                    let mut dup_tokens = vec![Token::Map { len: Some(n + d) }];
                    dup_tokens.extend_from_slice(&tokens[1..tokens.len() - 1]);
                    let firsts: Vec<(K2, V2)> = sut(|| slot.m.iter()).take(d).map(|(k, v)| (*k, *v)).collect();
                    let mut later = sut(|| slot.m.clone());
                    for (k, v) in &firsts {
                        let v2 = V2::make(v.payload() ^ 0x5A5A);
                        Tok::push_tokens(k, &mut dup_tokens);
                        TokV::push_tokens(&v2, &mut dup_tokens);
                        sut(|| later.insert(*k, v2));
                    }
                    dup_tokens.push(Token::MapEnd);
                    let later_wins = std::panic::catch_unwind(std::panic::AssertUnwindSafe(|| sut(|| serde_test::assert_de_tokens(&later, &dup_tokens))));
                    if let Err(e1) = later_wins {
                        if e1.is::<ctx::FuseBlown>() {
                            std::panic::resume_unwind(e1);
                        }
                        // first value wins?
                        sut(|| serde_test::assert_de_tokens(&slot.m, &dup_tokens));
                    }
                }
                n
            });
            match r.result {
                Ok(n) => {
                    if n != slot.model.len() {
                        acc.wrong(format!("serialised {} entries, the model holds {}", n, slot.model.len()));
                    }
                    acc.out.res = format!("round trip of {} entries", n);
                    if st.split {
                        acc.probe("serde-map-while-split");
                    }
                }
                Err(Panic::Message(m)) => {
                    acc.anomaly("serde-mismatch", format!("map serde round trip failed: {}", &m[..m.len().min(600)]));
                    acc.out.res = "mismatch".to_string();
                }
                Err(p) => w_handle(acc, p),
            }
        }
        Op::SerdeSet { s, dst, hint, fail_at } => {
            let (si, di) = (*s as usize, *dst as usize);
            if si >= w.sets.len() || di >= w.sets.len() {
                acc.out.res = "skipped".to_string();
                return;
            }
            let h = w.cfg.set_hashers[si].clone();
            ctx::with(|c| c.default_hasher = (h.seed, h.mode as u8));
            let st = w.sets[si].s.verif_state();
            acc.out.before = Some(st);
            // (a) + (b) token stream and round trip
            {
                let slot = &w.sets[si];
                let r = call(|| {
                    let mut tokens = vec![Token::Seq { len: Some(sut(|| slot.s.len())) }];
                    let mut n = 0usize;
                    for k in sut(|| slot.s.iter()) {
                        Tok::push_tokens(k, &mut tokens);
                        n += 1;
                    }
                    tokens.push(Token::SeqEnd);
                    sut(|| serde_test::assert_ser_tokens(&slot.s, &tokens));
                    sut(|| serde_test::assert_de_tokens(&slot.s, &tokens));
                    n
                });
                match r.result {
                    Ok(n) => {
                        if n != slot.model.len() {
                            acc.wrong(format!("serialised {} elements, the model holds {}", n, slot.model.len()));
                        }
                    }
                    Err(Panic::Message(m)) => {
                        acc.anomaly("serde-mismatch", format!("set serde round trip failed: {}", &m[..m.len().min(600)]));
                        acc.out.res = "mismatch".to_string();
                        return;
                    }
                    Err(p) => {
                        w_handle(acc, p);
                        return;
                    }
                }
            }
            if si == di {
                acc.out.res = "round trip".to_string();
                return;
            }
            // (c) + (d) deserialize_in_place into a destination in any phase with unrelated
            // contents, from a stream that may lie about its length and may fail
            let dst_before = w.sets[di].s.verif_state();
            let (src, d) = two_mut(&mut w.sets, si, di);
            let items: Vec<K2> = src.s.iter().copied().collect();
            let delivered = std::rc::Rc::new(std::cell::Cell::new(0usize));
            let total = items.len();
            let fails = fail_at.map_or(false, |f| (f as usize) <= total);
            let de = SeqDe(LyingSeq { items: items.clone(), pos: 0, hint: *hint, fail_at: *fail_at, delivered: delivered.clone() });
            let r = call(|| sut(|| Set::<K2>::deserialize_in_place(de, &mut d.s)));
            match r.result {
                Ok(res) => {
                    let observed: BTreeMap<u32, u64> = d.s.iter().map(|k| (k.kv(), 0u64)).collect();
                    match res {
                        Ok(()) => {
                            if fails {
                                acc.wrong("deserialize_in_place returned Ok although the stream failed".to_string());
                            }
                            let want: BTreeMap<u32, u64> = src.model.keys().map(|&k| (k, 0u64)).collect();
                            if observed != want {
                                acc.wrong(format!("deserialize_in_place left {} elements, the stream delivered {} (previous contents must be replaced entirely)", observed.len(), want.len()));
                            }
                            acc.out.res = format!("in place {} (hint mode {})", total, hint);
                        }
                        Err(e) => {
                            if !fails {
                                acc.wrong(format!("deserialize_in_place failed on a good stream: {}", e));
                            }
                            let prefix: std::collections::BTreeSet<u32> = items[..delivered.get().min(total)].iter().map(|k| k.kv()).collect();
                            if observed.keys().any(|k| !prefix.contains(k)) {
                                acc.wrong("after a failed deserialize_in_place the set holds elements that were not delivered".to_string());
                            }
                            acc.out.res = format!("in place failed after {}", delivered.get());
                            acc.probe("serde-stream-failure");
                        }
                    }
                    d.model = observed;
                    let stn = d.s.verif_state();
                    d.countdown = if stn.split && stn.old_len > 0 { Some(((stn.old_len + stn.r - 1) / stn.r) as u64) } else { None };
                    if dst_before.split {
                        acc.probe("deserialize_in_place-into-split-destination");
                    }
                    if *hint != 0 {
                        acc.probe("serde-lying-size-hint");
                    }
                    acc.out.after = Some(stn);
                }
                Err(p) => w_handle(acc, p),
            }
            // the destination now uses the default hasher state it was created with: unchanged
        }
        _ => {}
    }
}

fn w_handle(acc: &mut Acc, p: Panic) {
    match p {
        Panic::Injected(s, n) => acc.out.injected = Some((s, n)),
        Panic::Message(m) => {
            acc.anomaly("unexpected-panic", format!("panic:{}", m));
            acc.out.fatal = true;
        }
    }
}
