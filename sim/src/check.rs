//! Whole-state comparisons against the reference model: contents of every collection, and the
//! object ledger (every live tracked object is referenced by exactly one model entry).

use crate::ctx::{self, ObjState};
use crate::elems::{ElemClass, KeyT, ValT};
use crate::world::*;
use std::collections::BTreeSet;

impl<K: KeyT, V: ValT> World<K, V> {
    /// Compare every collection with its model. `probe_all`: also look up every key of the
    /// universe (otherwise only present keys and a few absent ones).
    pub fn check_contents(&mut self, op_index: usize, op_kind: &'static str, family: Family, probe_all: bool) -> Vec<Anomaly> {
        let mut out = Vec::new();
        let mut bad = |detail: String| {
            out.push(Anomaly { class: "contents-mismatch", family, op_index, op_kind, detail });
        };
        for (mi, slot) in self.maps.iter().enumerate() {
            let r = call(|| {
                let mut errs: Vec<String> = Vec::new();
                let len = sut(|| slot.m.len());
                let empty = sut(|| slot.m.is_empty());
                if len != slot.model.len() || empty != slot.model.is_empty() {
                    errs.push(format!("map {}: len()={} is_empty()={} but the model holds {}", mi, len, empty, slot.model.len()));
                }
                let mut got: Vec<(u32, u64, u64, u32)> = Vec::with_capacity(len);
                for (k, v) in sut(|| slot.m.iter()) {
                    k.check("contents iter key");
                    v.check("contents iter value");
                    got.push((k.kv(), k.oid(), v.oid(), v.payload()));
                    if got.len() > slot.model.len() + 4 {
                        break;
                    }
                }
                got.sort_unstable();
                let want: Vec<(u32, u64, u64, u32)> = slot
                    .model
                    .iter()
                    .map(|(&kv, e)| (kv, if K::CLASS == ElemClass::Tracked { e.kid } else { 0 }, if K::CLASS == ElemClass::Tracked { e.vid } else { 0 }, e.p))
                    .collect();
                if got != want {
                    let g: BTreeSet<_> = got.iter().collect();
                    let w: BTreeSet<_> = want.iter().collect();
                    let extra: Vec<_> = g.difference(&w).take(4).collect();
                    let missing: Vec<_> = w.difference(&g).take(4).collect();
                    errs.push(format!("map {}: iteration differs from the model: unexpected {:?}, missing {:?} (kv, key id, value id, payload); {} iterated, {} expected", mi, extra, missing, got.len(), want.len()));
                }
                // lookups
                let uni = if K::CLASS.is_zst() { 1 } else { self.cfg.universe };
                let keys: Vec<u32> = if probe_all && uni <= 256 {
                    (0..uni).collect()
                } else {
                    let mut v: Vec<u32> = slot.model.keys().copied().collect();
                    v.extend([0, 1 % uni.max(1), uni.saturating_sub(1), uni / 2]);
                    v
                };
                for kv in keys {
                    let probe = K::probe(kv);
                    let r = sut(|| slot.m.get(&probe));
                    match (r, slot.model.get(&kv)) {
                        (Some(v), Some(e)) => {
                            if v.payload() != e.p {
                                errs.push(format!("map {}: get({}) = {} but the model says {}", mi, kv, v.payload(), e.p));
                            }
                        }
                        (None, None) => {}
                        (a, b) => errs.push(format!("map {}: get({}) is_some={} but model present={}", mi, kv, a.is_some(), b.is_some())),
                    }
                    if errs.len() > 4 {
                        break;
                    }
                }
                errs
            });
            match r.result {
                Ok(errs) => {
                    for e in errs {
                        bad(e);
                    }
                }
                Err(p) => bad(format!("map {}: panic while reading contents: {:?}", mi, p)),
            }
        }
        for (si, slot) in self.sets.iter().enumerate() {
            let r = call(|| {
                let mut errs: Vec<String> = Vec::new();
                let len = sut(|| slot.s.len());
                let empty = sut(|| slot.s.is_empty());
                if len != slot.model.len() || empty != slot.model.is_empty() {
                    errs.push(format!("set {}: len()={} is_empty()={} but the model holds {}", si, len, empty, slot.model.len()));
                }
                let mut got: Vec<(u32, u64)> = Vec::with_capacity(len);
                for k in sut(|| slot.s.iter()) {
                    k.check("contents iter element");
                    got.push((k.kv(), k.oid()));
                    if got.len() > slot.model.len() + 4 {
                        break;
                    }
                }
                got.sort_unstable();
                let want: Vec<(u32, u64)> = slot.model.iter().map(|(&kv, &kid)| (kv, if K::CLASS == ElemClass::Tracked { kid } else { 0 })).collect();
                if got != want {
                    let g: BTreeSet<_> = got.iter().collect();
                    let w: BTreeSet<_> = want.iter().collect();
                    let extra: Vec<_> = g.difference(&w).take(4).collect();
                    let missing: Vec<_> = w.difference(&g).take(4).collect();
                    errs.push(format!("set {}: iteration differs from the model: unexpected {:?}, missing {:?}; {} iterated, {} expected", si, extra, missing, got.len(), want.len()));
                }
                let uni = if K::CLASS.is_zst() { 1 } else { self.cfg.universe };
                let keys: Vec<u32> = if probe_all && uni <= 256 {
                    (0..uni).collect()
                } else {
                    let mut v: Vec<u32> = slot.model.keys().copied().collect();
                    v.extend([0, 1 % uni.max(1), uni.saturating_sub(1), uni / 2]);
                    v
                };
                for kv in keys {
                    let probe = K::probe(kv);
                    let r = sut(|| slot.s.contains(&probe));
                    if r != slot.model.contains_key(&kv) {
                        errs.push(format!("set {}: contains({}) = {} but model present={}", si, kv, r, !r));
                    }
                    if errs.len() > 4 {
                        break;
                    }
                }
                errs
            });
            match r.result {
                Ok(errs) => {
                    for e in errs {
                        bad(e);
                    }
                }
                Err(p) => bad(format!("set {}: panic while reading contents: {:?}", si, p)),
            }
        }
        for e in ctx::take_errors() {
            out.push(Anomaly { class: "ledger", family: Family::Internal, op_index, op_kind, detail: e });
        }
        out
    }

    /// Make every model hold what its collection holds (after an interrupted call).
    pub fn adopt_observed(&mut self, interrupted_clone_from: Option<crate::ops::Op>) -> Result<(), String> {
        let cfg = self.cfg.clone();
        let (mdst, sdst) = match interrupted_clone_from {
            Some(crate::ops::Op::CloneFrom { dst, .. }) => (Some(dst as usize), None),
            Some(crate::ops::Op::SCloneFrom { dst, .. }) => (None, Some(dst as usize)),
            _ => (None, None),
        };
        for (mi, slot) in self.maps.iter_mut().enumerate() {
            let r = call(|| {
                let mut m = std::collections::BTreeMap::new();
                for (k, v) in sut(|| slot.m.iter()) {
                    m.insert(k.kv(), MEntry { kid: k.oid(), vid: v.oid(), p: v.payload() });
                }
                m
            });
            match r.result {
                Ok(m) => slot.model = m,
                Err(p) => return Err(format!("panic while reading map {}: {:?}", mi, p)),
            }
            let st = slot.m.verif_state();
            slot.countdown = if st.split && st.old_len > 0 { Some(((st.old_len + st.r - 1) / st.r.max(1)) as u64) } else { None };
        }
        for (si, slot) in self.sets.iter_mut().enumerate() {
            let r = call(|| {
                let mut m = std::collections::BTreeMap::new();
                for k in sut(|| slot.s.iter()) {
                    m.insert(k.kv(), k.oid());
                }
                m
            });
            match r.result {
                Ok(m) => slot.model = m,
                Err(p) => return Err(format!("panic while reading set {}: {:?}", si, p)),
            }
            let st = slot.s.verif_state();
            slot.countdown = if st.split && st.old_len > 0 { Some(((st.old_len + st.r - 1) / st.r.max(1)) as u64) } else { None };
        }
        let _ = ctx::take_errors();
        Ok(())
    }

    /// Logic-error keys: the models mean nothing, only structure is judged. Every object the
    /// collections hand out must be alive, no object may be stored twice (it would be dropped
    /// twice), and the cached iterator must agree with the old table (I1).
    pub fn chaos_structural(&mut self, op_index: usize, op_kind: &'static str) -> Vec<Anomaly> {
        let mut out = Vec::new();
        let mut err = |class: &'static str, detail: String| out.push(Anomaly { class, family: Family::Internal, op_index, op_kind, detail });
        let mut ids: BTreeSet<u64> = BTreeSet::new();
        for (mi, slot) in self.maps.iter().enumerate() {
            let st = slot.m.verif_state();
            if st.split && (st.cursor_remaining != st.old_len || !st.cursor_exact) {
                err("I1-cursor", format!("map {} (structure only): cached iterator remaining={} old_len={} exact={}", mi, st.cursor_remaining, st.old_len, st.cursor_exact));
                return out;
            }
            let r = call(|| {
                let len = sut(|| slot.m.len());
                let mut seen: Vec<(u64, u64)> = Vec::new();
                for (k, v) in sut(|| slot.m.iter()) {
                    k.check("iter key (structure only)");
                    v.check("iter value (structure only)");
                    seen.push((k.oid(), v.oid()));
                    if seen.len() > len + 8 {
                        break;
                    }
                }
                (len, seen)
            });
            match r.result {
                Ok((len, seen)) => {
                    if seen.len() != len {
                        err("chaos-len", format!("map {}: len()={} but iteration yields {}", mi, len, seen.len()));
                    }
                    for (a, b) in seen {
                        for id in [a, b] {
                            if id != 0 && !ids.insert(id) {
                                err("ledger", format!("map {} (structure only): object {} is stored twice", mi, id));
                            }
                        }
                    }
                }
                Err(p) => err("chaos-panic", format!("map {}: panic while iterating: {:?}", mi, p)),
            }
        }
        for (si, slot) in self.sets.iter().enumerate() {
            let st = slot.s.verif_state();
            if st.split && (st.cursor_remaining != st.old_len || !st.cursor_exact) {
                err("I1-cursor", format!("set {} (structure only): cached iterator remaining={} old_len={} exact={}", si, st.cursor_remaining, st.old_len, st.cursor_exact));
                return out;
            }
            let r = call(|| {
                let len = sut(|| slot.s.len());
                let mut seen: Vec<u64> = Vec::new();
                for k in sut(|| slot.s.iter()) {
                    k.check("set iter (structure only)");
                    seen.push(k.oid());
                    if seen.len() > len + 8 {
                        break;
                    }
                }
                (len, seen)
            });
            match r.result {
                Ok((len, seen)) => {
                    if seen.len() != len {
                        err("chaos-len", format!("set {}: len()={} but iteration yields {}", si, len, seen.len()));
                    }
                    for id in seen {
                        if id != 0 && !ids.insert(id) {
                            err("ledger", format!("set {} (structure only): object {} is stored twice", si, id));
                        }
                    }
                }
                Err(p) => err("chaos-panic", format!("set {}: panic while iterating: {:?}", si, p)),
            }
        }
        if K::CLASS == ElemClass::ZstDrop {
            // counted objects: at least as many alive as the collections say they hold
            let stored: i64 = self.maps.iter().map(|s| 2 * s.m.len() as i64).sum::<i64>() + self.sets.iter().map(|s| s.s.len() as i64).sum::<i64>();
            let (live, over) = ctx::with(|c| (c.zst_live, c.zst_overdrop));
            if over {
                err("ledger", "more destructor runs of zero-sized objects than objects were created (double drop)".to_string());
            } else if live < stored {
                err("ledger", format!("(structure only) the collections hold {} zero-sized objects but only {} are alive", stored, live));
            }
        }
        for e in ctx::take_errors() {
            err("ledger", e);
        }
        out
    }

    /// After an interrupted call: make every model hold what *lookups* find (not what iteration
    /// yields), so that the iterators are then judged against an independent view (C08).
    pub fn adopt_by_lookup(&mut self) -> Result<(), String> {
        let uni = if K::CLASS.is_zst() { 1 } else { self.cfg.universe.min(4096) };
        for (mi, slot) in self.maps.iter_mut().enumerate() {
            let mut keys: Vec<u32> = (0..uni).collect();
            keys.extend(slot.model.keys().copied().filter(|k| *k >= uni));
            let r = call(|| {
                let mut m = std::collections::BTreeMap::new();
                for kv in keys {
                    let probe = K::probe(kv);
                    if let Some((k, v)) = sut(|| slot.m.get_key_value(&probe)) {
                        m.insert(kv, MEntry { kid: k.oid(), vid: v.oid(), p: v.payload() });
                    }
                }
                m
            });
            match r.result {
                Ok(m) => slot.model = m,
                Err(p) => return Err(format!("panic while looking up keys of map {}: {:?}", mi, p)),
            }
            let st = slot.m.verif_state();
            slot.countdown = if st.split && st.old_len > 0 { Some(((st.old_len + st.r - 1) / st.r.max(1)) as u64) } else { None };
        }
        for (si, slot) in self.sets.iter_mut().enumerate() {
            let mut keys: Vec<u32> = (0..uni).collect();
            keys.extend(slot.model.keys().copied().filter(|k| *k >= uni));
            let r = call(|| {
                let mut m = std::collections::BTreeMap::new();
                for kv in keys {
                    let probe = K::probe(kv);
                    if let Some(k) = sut(|| slot.s.get(&probe)) {
                        m.insert(kv, k.oid());
                    }
                }
                m
            });
            match r.result {
                Ok(m) => slot.model = m,
                Err(p) => return Err(format!("panic while looking up elements of set {}: {:?}", si, p)),
            }
            let st = slot.s.verif_state();
            slot.countdown = if st.split && st.old_len > 0 { Some(((st.old_len + st.r - 1) / st.r.max(1)) as u64) } else { None };
        }
        let _ = ctx::take_errors();
        Ok(())
    }

    /// Sorted contents of every collection as the collections themselves report them.
    pub fn final_contents(&self) -> String {
        let mut s = String::from("final:");
        for slot in &self.maps {
            let r = call(|| {
                let mut v: Vec<(u32, u32)> = sut(|| slot.m.iter()).map(|(k, v)| (k.kv(), v.payload())).collect();
                v.sort_unstable();
                v
            });
            s.push_str(&format!(" m{:?}", r.result.unwrap_or_default()));
        }
        for slot in &self.sets {
            let r = call(|| {
                let mut v: Vec<u32> = sut(|| slot.s.iter()).map(|k| k.kv()).collect();
                v.sort_unstable();
                v
            });
            s.push_str(&format!(" s{:?}", r.result.unwrap_or_default()));
        }
        s
    }

    /// Tracked elements only: the live objects are exactly those the models reference.
    /// `leak_check`: report live objects nobody references (off under fault injection).
    pub fn check_ledger(&self, op_index: usize, op_kind: &'static str, leak_check: bool) -> Vec<Anomaly> {
        let mut out = Vec::new();
        if K::CLASS == ElemClass::ZstDrop {
            // objects are indistinguishable: the ledger is a count
            let stored: i64 = self.maps.iter().map(|s| 2 * s.model.len() as i64).sum::<i64>() + self.sets.iter().map(|s| s.model.len() as i64).sum::<i64>();
            let (live, over, slack) = ctx::with(|c| (c.zst_live, c.zst_overdrop, c.zst_slack));
            let mut err = |detail: String, class: &'static str| out.push(Anomaly { class, family: Family::Internal, op_index, op_kind, detail });
            if over {
                err("more destructor runs of zero-sized objects than objects were created (double drop)".to_string(), "ledger");
            } else if live < stored {
                err(format!("{} zero-sized objects are stored in collections but only {} are alive (an element was dropped and kept)", stored, live), "ledger");
            } else if live > stored && leak_check && !slack {
                err(format!("{} zero-sized objects alive, {} stored in collections (leak)", live, stored), "leak");
            }
            return out;
        }
        if K::CLASS != ElemClass::Tracked {
            return out;
        }
        let mut referenced: BTreeSet<u64> = BTreeSet::new();
        for s in &self.maps {
            for e in s.model.values() {
                referenced.insert(e.kid);
                referenced.insert(e.vid);
            }
        }
        for s in &self.sets {
            for &kid in s.model.values() {
                referenced.insert(kid);
            }
        }
        let mut leaked = Vec::new();
        let mut dead = Vec::new();
        ctx::with(|c| {
            for (&id, o) in c.ledger.iter() {
                match o.state {
                    ObjState::Live => {
                        if !referenced.contains(&id) {
                            leaked.push(id);
                        }
                    }
                    ObjState::Dropped => {}
                    ObjState::Forgotten => {}
                }
            }
        });
        for &id in referenced.iter() {
            if id != 0 && ctx::with(|c| !c.ledger.contains_key(&id)) {
                dead.push(id);
            }
        }
        if !dead.is_empty() {
            out.push(Anomaly {
                class: "ledger",
                family: Family::Internal,
                op_index,
                op_kind,
                detail: format!("objects stored in a collection have been dropped: {:?}", &dead[..dead.len().min(6)]),
            });
        }
        if leak_check && !leaked.is_empty() {
            out.push(Anomaly {
                class: "leak",
                family: Family::Internal,
                op_index,
                op_kind,
                detail: format!("{} live objects are referenced by no collection (neither returned nor dropped): {:?}", leaked.len(), &leaked[..leaked.len().min(6)]),
            });
        }
        out
    }

    /// Drop every collection and check that all tables and objects are released.
    pub fn teardown(mut self, op_index: usize, leak_check: bool) -> Vec<Anomaly> {
        let mut out = Vec::new();
        let maps = std::mem::take(&mut self.maps);
        let sets = std::mem::take(&mut self.sets);
        let r = call(|| {
            sut(|| drop(maps));
            sut(|| drop(sets));
        });
        if let Err(p) = r.result {
            out.push(Anomaly { class: "unexpected-panic", family: Family::Internal, op_index, op_kind: "drop", detail: format!("panic while dropping the collections: {:?}", p) });
        }
        for e in ctx::take_errors() {
            out.push(Anomaly { class: "ledger", family: Family::Internal, op_index, op_kind: "drop", detail: e });
        }
        let live = crate::alloc::live_tables();
        if live != self.forgot_tables {
            out.push(Anomaly {
                class: "leak",
                family: Family::Internal,
                op_index,
                op_kind: "drop",
                detail: format!("{} table allocations still live after every collection was dropped ({} exempt by mem::forget)", live, self.forgot_tables),
            });
        }
        if K::CLASS == ElemClass::ZstDrop {
            let (live, over, slack) = ctx::with(|c| (c.zst_live, c.zst_overdrop, c.zst_slack));
            if over || live < 0 {
                out.push(Anomaly { class: "ledger", family: Family::Internal, op_index, op_kind: "drop", detail: "more destructor runs of zero-sized objects than objects were created (double drop)".to_string() });
            } else if live > 0 && leak_check && !slack {
                out.push(Anomaly { class: "leak", family: Family::Internal, op_index, op_kind: "drop", detail: format!("{} zero-sized objects never dropped", live) });
            }
        }
        if K::CLASS == ElemClass::Tracked && leak_check {
            let n = ctx::with(|c| c.ledger.values().filter(|o| o.state == ObjState::Live).count());
            if n > 0 {
                let ids: Vec<u64> = ctx::with(|c| c.ledger.iter().filter(|(_, o)| o.state == ObjState::Live).map(|(&i, _)| i).take(6).collect());
                out.push(Anomaly { class: "leak", family: Family::Internal, op_index, op_kind: "drop", detail: format!("{} objects never dropped: {:?}", n, ids) });
            }
        }
        out
    }
}
