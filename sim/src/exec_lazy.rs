//! retain / drain_filter / drain / into_iter (with cancellation: drop or forget after k
//! steps), iterator checks, capacity management, clone, equality, the C04 probe.

use crate::alloc;
use crate::ctx::{self, ObjState};
use crate::elems::{ElemClass, KeyT, ValT};
use crate::exec::*;
use crate::exec_map::two_mut;
use crate::hasher::SimHasher;
use crate::ops::*;
use crate::world::*;
use griddle::hash_map::VerifState;
use std::collections::{BTreeMap, BTreeSet};

fn tables_of(st: &VerifState) -> i64 {
    (st.main_buckets > 1) as i64 + st.split as i64
}

fn mark_forgotten(ids: impl Iterator<Item = u64>) {
    ctx::with(|c| {
        c.zst_slack = true;
        for id in ids {
            if id != 0 {
                if let Some(o) = c.ledger.get_mut(&id) {
                    if o.state == ObjState::Live {
                        o.state = ObjState::Forgotten;
                    }
                }
            }
        }
    });
}

fn rearm(st: &VerifState) -> Option<u64> {
    if st.split && st.old_len > 0 {
        Some(((st.old_len + st.r - 1) / st.r.max(1)) as u64)
    } else {
        None
    }
}

impl<K: KeyT, V: ValT> World<K, V> {
    pub(crate) fn op_retain(&mut self, acc: &mut Acc, mi: usize, pred: &Pred, mutate: Option<u32>) {
        let before = self.maps[mi].m.verif_state();
        let mutate = mutate.map(V::norm);
        let keep = self.maps[mi].eval_pred(pred);
        let slot = &mut self.maps[mi];
        let mut log: Vec<u32> = Vec::new();
        let co = call(|| {
            sut(|| {
                slot.m.retain(|k, v| {
                    closure_body(|| {
                        k.check("retain key");
                        v.check("retain value");
                        log.push(k.kv());
                        if let Some(mp) = mutate {
                            v.set_payload(v.payload() ^ mp);
                        }
                        keep.contains(&k.kv())
                    })
                })
            })
        });
        let stats = (co.hashes, co.alloc.allocs);
        match co.result {
            Ok(()) => {
                let mut sorted = log.clone();
                sorted.sort_unstable();
                let want: Vec<u32> = slot.model.keys().copied().collect();
                if sorted != want {
                    acc.anomaly("partition-mismatch", format!("retain called the predicate on {:?}, elements present were {:?}", sorted, want));
                    acc.out.fatal = true;
                }
                let dropped = slot.model.len() - slot.model.keys().filter(|k| keep.contains(k)).count();
                slot.model.retain(|kv, e| {
                    if let Some(mp) = mutate {
                        e.p ^= mp;
                    }
                    keep.contains(kv)
                });
                acc.out.res = format!("kept {} dropped {}", slot.model.len(), dropped);
                let after = slot.m.verif_state();
                if before.split && before.old_len > 0 && after.split && after.old_len == 0 {
                    acc.probe("old-table-emptied-by-retain");
                }
                self.post_map(acc, mi, before, stats, Cost::Exempt, false, 0, true);
            }
            Err(pn) => {
                if let Panic::Injected(ctx::Site::Drop, _) = &pn {
                    acc.probe(if before.split && before.old_len > 0 { if K::CLASS.is_zst() { "retain-destructor-panicked-during-resize-zero-sized" } else { "retain-destructor-panicked-during-resize" } } else { "retain-destructor-panicked" });
                }
                self.handle_panic(acc, pn, &[])
            }
        }
    }

    pub(crate) fn op_drain_filter(&mut self, acc: &mut Acc, mi: usize, pred: &Pred, mutate: Option<u32>, consume: Consume, drop_panic: Option<u32>) {
        // only tracked values have destructors the simulator owns
        let drop_panic = if K::CLASS.has_drop() { drop_panic } else { None };
        if let Some(n) = drop_panic {
            ctx::with(|c| c.drop_fuse = Some(n as u64));
        }
        let before = self.maps[mi].m.verif_state();
        let mutate = mutate.map(V::norm);
        let take = self.maps[mi].eval_pred(pred);
        let slot = &mut self.maps[mi];
        let model = &slot.model;
        let mut log: Vec<u32> = Vec::new();
        let mut yielded: Vec<u32> = Vec::new();
        let mut wrong: Vec<String> = Vec::new();
        let limit = match consume {
            Consume::All => usize::MAX,
            Consume::DropAfter(k) | Consume::ForgetAfter(k) => k as usize,
        };
        let co = call(|| {
            let mut df = sut(|| {
                slot.m.drain_filter(|k, v| {
                    closure_body(|| {
                        k.check("drain_filter key");
                        v.check("drain_filter value");
                        log.push(k.kv());
                        if let Some(mp) = mutate {
                            v.set_payload(v.payload() ^ mp);
                        }
                        take.contains(&k.kv())
                    })
                })
            });
            while yielded.len() < limit {
                match sut(|| df.next()) {
                    Some((k, v)) => {
                        k.check("drain_filter yield");
                        v.check("drain_filter yield");
                        match model.get(&k.kv()) {
                            Some(e) => {
                                let want_p = e.p ^ mutate.unwrap_or(0);
                                if !take.contains(&k.kv()) || yielded.contains(&k.kv()) || v.payload() != want_p || (v.oid() != 0 && (v.oid() != e.vid || k.oid() != e.kid)) {
                                    wrong.push(format!("drain_filter yielded ({},{}): selected={} dup={} expected payload {}", k.kv(), v.payload(), take.contains(&k.kv()), yielded.contains(&k.kv()), want_p));
                                }
                            }
                            None => wrong.push(format!("drain_filter yielded key {} which the map did not hold", k.kv())),
                        }
                        yielded.push(k.kv());
                    }
                    None => break,
                }
            }
            match consume {
                Consume::ForgetAfter(_) => std::mem::forget(df),
                _ => sut(|| drop(df)),
            }
        });
        let stats = (co.hashes, co.alloc.allocs);
        ctx::with(|c| c.drop_fuse = None);
        // A destructor panicked while the early-dropped iterator was removing the remaining
        // matches: the panic propagates, but the removal must have been completed all the same
        // (upstream keeps a guard for exactly this). Judge the outcome like a finished drop.
        let mut result = co.result;
        if let Err(Panic::Injected(ctx::Site::Drop, _)) = &result {
            acc.probe("drain_filter-drop-panicked-destructor");
            result = Ok(());
        }
        match result {
            Ok(()) => {
                for w in wrong {
                    acc.anomaly("partition-mismatch", w);
                    acc.out.fatal = true;
                }
                let mut sorted = log.clone();
                sorted.sort_unstable();
                let dup = sorted.windows(2).any(|w| w[0] == w[1]);
                let forget = matches!(consume, Consume::ForgetAfter(_));
                let all_keys: Vec<u32> = slot.model.keys().copied().collect();
                if dup || sorted.iter().any(|k| !slot.model.contains_key(k)) || (!forget && sorted != all_keys) {
                    acc.anomaly("partition-mismatch", format!("drain_filter predicate call log {:?} vs elements {:?} (forget={})", sorted, all_keys, forget));
                    acc.out.fatal = true;
                }
                let visited: BTreeSet<u32> = log.iter().copied().collect();
                let yset: BTreeSet<u32> = yielded.iter().copied().collect();
                if !forget {
                    let expect_removed = slot.model.keys().filter(|k| take.contains(k)).count();
                    if matches!(consume, Consume::All) && yset.len() != expect_removed {
                        acc.anomaly("partition-mismatch", format!("drain_filter yielded {} elements, {} selected", yset.len(), expect_removed));
                        acc.out.fatal = true;
                    }
                }
                slot.model.retain(|kv, e| {
                    if visited.contains(kv) {
                        if let Some(mp) = mutate {
                            e.p ^= mp;
                        }
                    }
                    if forget {
                        !yset.contains(kv)
                    } else {
                        !take.contains(kv)
                    }
                });
                acc.out.res = format!("yielded {} left {}", yielded.len(), slot.model.len());
                let after = slot.m.verif_state();
                if before.split && before.old_len > 0 && !after.split {
                    acc.probe("drain_filter-freed-old-table");
                }
                if before.split && before.old_len > 0 && after.split && after.old_len == 0 {
                    acc.internal("progress-empty-old-kept", "drain_filter emptied the old table without freeing it".to_string());
                }
                match consume {
                    Consume::DropAfter(_) => acc.probe("drain_filter-dropped-early"),
                    Consume::ForgetAfter(_) => acc.probe("drain_filter-forgotten"),
                    _ => {}
                }
                self.post_map(acc, mi, before, stats, Cost::Exempt, false, 0, false);
            }
            Err(pn) => self.handle_panic(acc, pn, &[]),
        }
    }

    pub(crate) fn op_drain(&mut self, acc: &mut Acc, mi: usize, consume: Consume) {
        let before = self.maps[mi].m.verif_state();
        let slot = &mut self.maps[mi];
        let model = &slot.model;
        let total = model.len();
        let mut yielded: BTreeSet<u32> = BTreeSet::new();
        let mut wrong: Vec<String> = Vec::new();
        let limit = match consume {
            Consume::All => usize::MAX,
            Consume::DropAfter(k) | Consume::ForgetAfter(k) => k as usize,
        };
        let co = call(|| {
            let mut d = sut(|| slot.m.drain());
            sut(|| debug_to_sink(&d));
            loop {
                let remaining = total - yielded.len().min(total);
                let (lo, hi) = sut(|| d.size_hint());
                let l = sut(|| d.len());
                if lo != remaining || hi != Some(remaining) || l != remaining {
                    wrong.push(format!("drain: size_hint=({},{:?}) len={} but {} elements remain", lo, hi, l, remaining));
                    break;
                }
                if yielded.len() >= limit {
                    break;
                }
                match sut(|| d.next()) {
                    Some((k, v)) => {
                        k.check("drain yield");
                        v.check("drain yield");
                        match model.get(&k.kv()) {
                            Some(e) if !yielded.contains(&k.kv()) && v.payload() == e.p && (v.oid() == 0 || (v.oid() == e.vid && k.oid() == e.kid)) => {}
                            _ => wrong.push(format!("drain yielded ({},{}) unexpectedly (dup={})", k.kv(), v.payload(), yielded.contains(&k.kv()))),
                        }
                        yielded.insert(k.kv());
                    }
                    None => {
                        if yielded.len() != total {
                            wrong.push(format!("drain ended after {} of {} elements", yielded.len(), total));
                        }
                        for _ in 0..3 {
                            if sut(|| d.next()).is_some() {
                                wrong.push("drain yielded after returning None".to_string());
                            }
                        }
                        break;
                    }
                }
            }
            match consume {
                Consume::ForgetAfter(_) => std::mem::forget(d),
                _ => sut(|| drop(d)),
            }
        });
        let stats = (co.hashes, co.alloc.allocs);
        let mut forgot_now: Option<(i64, i64)> = None;
        match co.result {
            Ok(()) => {
                for w in wrong {
                    acc.anomaly("iter-mismatch", w);
                    acc.out.fatal = true;
                }
                if let Consume::ForgetAfter(_) = consume {
                    let st = slot.m.verif_state();
                    forgot_now = Some((tables_of(&before), tables_of(&st)));
                    let ids: Vec<u64> = slot.model.iter().filter(|(kv, _)| !yielded.contains(kv)).flat_map(|(_, e)| [e.kid, e.vid]).collect();
                    mark_forgotten(ids.into_iter());
                    acc.probe("drain-forgotten");
                } else if yielded.len() < total {
                    acc.probe("drain-dropped-early");
                }
                slot.model.clear();
                let after = slot.m.verif_state();
                if slot.m.len() != 0 || !slot.m.is_empty() {
                    acc.anomaly("iter-mismatch", format!("map not empty after drain: len()={}", slot.m.len()));
                    acc.out.fatal = true;
                }
                if after.split {
                    acc.internal("progress-empty-old-kept", "drain left an old table allocated".to_string());
                }
                if before.split {
                    acc.probe("drain-while-split");
                }
                acc.out.res = format!("drained {} of {}", yielded.len(), total);
                self.post_map(acc, mi, before, stats, Cost::Exempt, false, 0, false);
                if let Some((max_leak, _)) = forgot_now {
                    self.account_forgotten(acc, max_leak);
                }
            }
            Err(pn) => self.handle_panic(acc, pn, &[]),
        }
    }

    pub(crate) fn op_into_iter(&mut self, acc: &mut Acc, mi: usize, consume: Consume, new_cap: usize) {
        let before = self.maps[mi].m.verif_state();
        let h = self.cfg.map_hashers[mi].clone();
        let fresh = new_map::<K, V>(&h, new_cap.min(1 << 12));
        let slot = &mut self.maps[mi];
        let old = std::mem::replace(&mut slot.m, fresh);
        let model = std::mem::take(&mut slot.model);
        slot.countdown = None;
        let total = model.len();
        let mut yielded: BTreeSet<u32> = BTreeSet::new();
        let mut wrong: Vec<String> = Vec::new();
        let limit = match consume {
            Consume::All => usize::MAX,
            Consume::DropAfter(k) | Consume::ForgetAfter(k) => k as usize,
        };
        let co = call(|| {
            let mut it = sut(|| old.into_iter());
            sut(|| debug_to_sink(&it));
            loop {
                let remaining = total - yielded.len().min(total);
                let (lo, hi) = sut(|| it.size_hint());
                let l = sut(|| it.len());
                if lo != remaining || hi != Some(remaining) || l != remaining {
                    wrong.push(format!("into_iter: size_hint=({},{:?}) len={} but {} elements remain", lo, hi, l, remaining));
                    break;
                }
                if yielded.len() >= limit {
                    break;
                }
                match sut(|| it.next()) {
                    Some((k, v)) => {
                        k.check("into_iter yield");
                        v.check("into_iter yield");
                        match model.get(&k.kv()) {
                            Some(e) if !yielded.contains(&k.kv()) && v.payload() == e.p && (v.oid() == 0 || (v.oid() == e.vid && k.oid() == e.kid)) => {}
                            _ => wrong.push(format!("into_iter yielded ({},{}) unexpectedly (dup={})", k.kv(), v.payload(), yielded.contains(&k.kv()))),
                        }
                        yielded.insert(k.kv());
                    }
                    None => {
                        if yielded.len() != total {
                            wrong.push(format!("into_iter ended after {} of {} elements", yielded.len(), total));
                        }
                        for _ in 0..3 {
                            if sut(|| it.next()).is_some() {
                                wrong.push("into_iter yielded after returning None".to_string());
                            }
                        }
                        break;
                    }
                }
            }
            match consume {
                Consume::ForgetAfter(_) => std::mem::forget(it),
                _ => sut(|| drop(it)),
            }
        });
        match co.result {
            Ok(()) => {
                for w in wrong {
                    acc.anomaly("iter-mismatch", w);
                    acc.out.fatal = true;
                }
                if let Consume::ForgetAfter(_) = consume {
                    self.account_forgotten(acc, tables_of(&before));
                    let ids: Vec<u64> = model.iter().filter(|(kv, _)| !yielded.contains(kv)).flat_map(|(_, e)| [e.kid, e.vid]).collect();
                    mark_forgotten(ids.into_iter());
                    acc.probe("into_iter-forgotten");
                } else if yielded.len() < total {
                    acc.probe("into_iter-dropped-early");
                }
                if before.split {
                    acc.probe("into_iter-while-split");
                }
                acc.out.res = format!("consumed {} of {}", yielded.len(), total);
            }
            Err(pn) => self.handle_panic(acc, pn, &[]),
        }
    }

    /// A lazy operation was `mem::forget`-ed: whatever tables it still owned are leaked by the
    /// caller's choice, not by the collection. The number leaked is measured (allocator live
    /// count minus what the hook reports as owned) and must not exceed what the iterator could
    /// have owned.
    pub(crate) fn account_forgotten(&mut self, acc: &mut Acc, max_leak: i64) {
        let mut owned = 0i64;
        for s in &self.maps {
            owned += tables_of(&s.m.verif_state());
        }
        for s in &self.sets {
            owned += tables_of(&s.s.verif_state());
        }
        let leaked = alloc::live_tables() - owned - self.forgot_tables;
        if leaked < 0 || leaked > max_leak {
            acc.internal("live-tables", format!("after mem::forget of an iterator {} tables are unaccounted for (it could own at most {})", leaked, max_leak));
        } else {
            self.forgot_tables += leaked;
        }
    }

    pub(crate) fn op_reserve(&mut self, acc: &mut Acc, mi: usize, n: Arg, fallible: bool, oom: bool) {
        let before = self.maps[mi].m.verif_state();
        let slot = &mut self.maps[mi];
        let (cap0, len0) = (slot.m.capacity(), slot.m.len());
        if !arg_allowed(n, cap0) {
            acc.out.res = "skipped".to_string();
            return;
        }
        let n = resolve_arg::<K, V>(n, cap0, len0);
        let huge = is_overflow_huge(n);
        let oom_huge = !huge && n >= (1 << 24);
        if !fallible && oom_huge {
            // the infallible path would abort the process by design of std; never generated
            acc.out.res = "skipped".to_string();
            return;
        }
        let co = call(|| {
            if fallible {
                if oom {
                    alloc::arm_oom(1);
                }
                sut(|| slot.m.try_reserve(n)).map_err(|e| format!("{:?}", e))
            } else {
                sut(|| slot.m.reserve(n));
                Ok(())
            }
        });
        let stats = (co.hashes, co.alloc.allocs);
        acc.out.oom_fired = co.alloc.oom_fired + co.alloc.cap_refused;
        let refused = co.alloc.oom_fired + co.alloc.cap_refused > 0;
        match co.result {
            Ok(r) => {
                let (cap1, len1) = (slot.m.capacity(), slot.m.len());
                match &r {
                    Ok(()) => {
                        let ok = match len1.checked_add(n) {
                            Some(want) => cap1 >= want,
                            None => false,
                        };
                        if !ok {
                            acc.anomaly(
                                "capacity-contract",
                                format!("{}({}) returned normally but capacity()={} len()={} (reserved nothing or too little)", if fallible { "try_reserve" } else { "reserve" }, n, cap1, len1),
                            );
                        }
                        if refused {
                            acc.anomaly("capacity-contract", format!("try_reserve({}) returned Ok although its table allocation failed", n));
                        }
                        acc.out.res = "Ok".to_string();
                    }
                    Err(e) => {
                        acc.out.res = format!("Err({})", e.split(|c: char| !c.is_alphanumeric()).next().unwrap_or(""));
                        if !huge && !refused {
                            acc.anomaly("capacity-contract", format!("try_reserve({}) failed ({}) although nothing prevented it", n, e));
                        }
                        acc.probe(if refused { "try_reserve-oom" } else { "try_reserve-overflow" });
                    }
                }
                if len1 != len0 {
                    acc.wrong(format!("reserve changed len() from {} to {}", len0, len1));
                }
                if before.split && !slot.m.verif_state().split && stats.0 > 0 {
                    acc.probe("reserve-carried-all");
                }
                let cost = if before.split { Cost::Exempt } else { Cost::KeyAdding };
                self.post_map(acc, mi, before, stats, cost, false, 0, false);
                self.maps[mi].countdown = rearm(&self.maps[mi].m.verif_state());
            }
            Err(pn) => {
                if fallible {
                    let s = match &pn {
                        Panic::Message(m) => m.clone(),
                        Panic::Injected(..) => String::new(),
                    };
                    if !matches!(pn, Panic::Injected(..)) {
                        acc.anomaly("capacity-contract", format!("try_reserve({}) panicked: {}", n, s));
                    }
                    self.handle_panic(acc, pn, &[]);
                } else if huge {
                    self.handle_panic(acc, pn, &["capacity-overflow"]);
                    acc.probe("reserve-overflow-panic");
                } else {
                    self.handle_panic(acc, pn, &[]);
                }
            }
        }
    }

    pub(crate) fn op_shrink(&mut self, acc: &mut Acc, mi: usize, n: Option<Arg>) {
        let before = self.maps[mi].m.verif_state();
        let slot = &mut self.maps[mi];
        let (cap0, len0) = (slot.m.capacity(), slot.m.len());
        if let Some(a) = n {
            if matches!(a, Arg::Abs(x) if x > 4096) {
                acc.out.res = "skipped".to_string();
                return;
            }
        }
        let n = n.map(|a| resolve_arg::<K, V>(a, cap0, len0));
        let co = call(|| match n {
            Some(n) => sut(|| slot.m.shrink_to(n)),
            None => sut(|| slot.m.shrink_to_fit()),
        });
        let stats = (co.hashes, co.alloc.allocs);
        match co.result {
            Ok(()) => {
                let after = slot.m.verif_state();
                let (cap1, len1) = (slot.m.capacity(), slot.m.len());
                if len1 != len0 {
                    acc.wrong(format!("shrink changed len() from {} to {}", len0, len1));
                }
                if after.main_buckets > before.main_buckets {
                    acc.anomaly("capacity-contract", format!("shrink enlarged the table: {} -> {} buckets", before.main_buckets, after.main_buckets));
                }
                let floor = len1.max(n.unwrap_or(0).min(cap0));
                if cap1 < floor {
                    acc.anomaly("capacity-contract", format!("after shrink_to({:?}) capacity()={} < max(len, min(m, previous capacity))={}", n, cap1, floor));
                }
                if before.split {
                    acc.probe("shrink-while-split");
                }
                acc.out.res = format!("buckets {}", if after.main_buckets < before.main_buckets { "shrunk" } else { "same" });
                self.post_map(acc, mi, before, stats, Cost::Exempt, false, 0, true);
                self.maps[mi].countdown = rearm(&self.maps[mi].m.verif_state());
            }
            Err(pn) => self.handle_panic(acc, pn, &[]),
        }
    }

    pub(crate) fn op_clone(&mut self, acc: &mut Acc, src: usize, dst: usize, clone_from: bool) {
        if src == dst || src >= self.maps.len() || dst >= self.maps.len() {
            acc.out.res = "skipped".to_string();
            return;
        }
        let src_before = self.maps[src].m.verif_state();
        let dst_before = self.maps[dst].m.verif_state();
        let (s, d) = two_mut(&mut self.maps, src, dst);
        let co = call(|| {
            if clone_from {
                sut(|| d.m.clone_from(&s.m));
                None
            } else {
                Some(sut(|| s.m.clone()))
            }
        });
        let stats = (co.hashes, co.alloc.allocs);
        match co.result {
            Ok(newmap) => {
                if let Some(nm) = newmap {
                    let old = std::mem::replace(&mut d.m, nm);
                    let _ = call(|| sut(|| drop(old)));
                }
                // rebuild the destination model from what the copy holds, checking it against
                // the source's model at payload level and for fresh identities
                let mut model: BTreeMap<u32, MEntry> = BTreeMap::new();
                let mut bad: Vec<String> = Vec::new();
                for (k, v) in d.m.iter() {
                    k.check("clone contents key");
                    v.check("clone contents value");
                    match s.model.get(&k.kv()) {
                        Some(e) => {
                            if v.payload() != e.p {
                                bad.push(format!("clone holds ({},{}) but source has payload {}", k.kv(), v.payload(), e.p));
                            }
                            if v.oid() != 0 && (v.oid() == e.vid || k.oid() == e.kid) {
                                bad.push(format!("clone shares an object with its source for key {}", k.kv()));
                            }
                        }
                        None => bad.push(format!("clone holds key {} which the source does not", k.kv())),
                    }
                    if model.insert(k.kv(), MEntry { kid: k.oid(), vid: v.oid(), p: v.payload() }).is_some() {
                        bad.push(format!("clone iterates key {} twice", k.kv()));
                    }
                }
                if model.len() != s.model.len() {
                    bad.push(format!("clone has {} elements, source {}", model.len(), s.model.len()));
                }
                d.model = model;
                let dh = *d.m.hasher();
                let sh = *s.m.hasher();
                if dh != sh {
                    bad.push(format!("destination hasher {:?} differs from source hasher {:?}", dh, sh));
                }
                for b in bad {
                    acc.wrong(b);
                }
                let src_after = s.m.verif_state();
                if src_after != src_before {
                    acc.anomaly("clone-changed-source", format!("source state {:?} -> {:?}", src_before, src_after));
                }
                let dst_after = d.m.verif_state();
                if dst_after.split {
                    acc.anomaly("clone-left-split", "the copy still has an old table".to_string());
                }
                d.countdown = None;
                if src_before.split {
                    acc.probe("clone-of-split-source");
                }
                if clone_from && dst_before.split {
                    acc.probe("clone_from-into-split-destination");
                }
                acc.out.res = format!("cloned {}", s.model.len());
                self.cfg.map_hashers[dst] = self.cfg.map_hashers[src].clone();
                acc.out.before = Some(dst_before);
                acc.out.after = Some(dst_after);
                let _ = stats;
            }
            Err(pn) => self.handle_panic(acc, pn, &[]),
        }
    }

    pub(crate) fn op_iter_check(&mut self, acc: &mut Acc, mi: usize, kind: IterKind, clone_at: Option<u32>) {
        let before = self.maps[mi].m.verif_state();
        let slot = &mut self.maps[mi];
        let model = &slot.model;
        let total = model.len();
        let mut wrong: Vec<String> = Vec::new();
        // One generic consumer: items are reported as (Option<kv>, Option<payload>).
        fn consume<I>(name: &str, mut it: I, total: usize, clone_at: Option<u32>, cloner: Option<&dyn Fn(&I) -> I>, dbg: Option<&dyn Fn(&I) -> String>, wrong: &mut Vec<String>, extract: &dyn Fn(I::Item) -> (Option<u32>, Option<u32>, u64, u64)) -> Vec<(Option<u32>, Option<u32>, u64, u64)>
        where
            I: Iterator + ExactSizeIterator,
        {
            let mut got = Vec::new();
            let mut side: Option<(I, usize)> = None;
            loop {
                let remaining = total - got.len().min(total);
                let (lo, hi) = sut(|| it.size_hint());
                let l = sut(|| it.len());
                if lo != remaining || hi != Some(remaining) || l != remaining {
                    wrong.push(format!("{}: size_hint=({},{:?}) len={} but {} elements remain", name, lo, hi, l, remaining));
                    return got;
                }
                if let (Some(c), Some(cl)) = (clone_at, cloner) {
                    if c as usize == got.len() && side.is_none() {
                        side = Some((sut(|| cl(&it)), got.len()));
                    }
                }
                if let Some(d) = dbg {
                    if got.len() == 1 {
                        let _ = sut(|| d(&it));
                    }
                }
                match sut(|| it.next()) {
                    Some(x) => got.push(extract(x)),
                    None => break,
                }
                if got.len() > total + 2 {
                    wrong.push(format!("{}: yielded more than {} elements", name, total));
                    return got;
                }
            }
            for _ in 0..3 {
                if sut(|| it.next()).is_some() {
                    wrong.push(format!("{}: yielded after returning None", name));
                }
            }
            if let Some((mut c, at)) = side {
                // the clone continues independently: it must yield exactly the suffix
                let mut n = at;
                loop {
                    let l = sut(|| c.len());
                    if l != total - n.min(total) {
                        wrong.push(format!("{}: cloned iterator len()={} with {} remaining", name, l, total - n.min(total)));
                        break;
                    }
                    match sut(|| c.next()) {
                        Some(x) => {
                            let e = extract(x);
                            if n < got.len() && (e.0, e.1) != (got[n].0, got[n].1) {
                                wrong.push(format!("{}: cloned iterator diverged at position {}", name, n));
                                break;
                            }
                            n += 1;
                        }
                        None => break,
                    }
                }
                if n != total {
                    wrong.push(format!("{}: cloned iterator yielded {} of {} elements", name, n, total));
                }
            }
            got
        }
        let mut got: Vec<(Option<u32>, Option<u32>, u64, u64)> = Vec::new();
        let mut keys_values_order_ok = true;
        let co = call(|| {
            got = match kind {
                IterKind::Iter => consume("iter", sut(|| slot.m.iter()), total, clone_at, Some(&|i| i.clone()), Some(&|i| format!("{:?}", i)), &mut wrong, &|(k, v)| {
                    k.check("iter");
                    v.check("iter");
                    (Some(k.kv()), Some(v.payload()), k.oid(), v.oid())
                }),
                IterKind::RefIntoIter => consume("&map into_iter", sut(|| (&slot.m).into_iter()), total, clone_at, Some(&|i| i.clone()), None, &mut wrong, &|(k, v)| {
                    k.check("iter");
                    v.check("iter");
                    (Some(k.kv()), Some(v.payload()), k.oid(), v.oid())
                }),
                IterKind::Keys => {
                    // keys() and values() enumerate in the same order
                    let ks: Vec<u32> = sut(|| slot.m.keys()).map(|k| k.kv()).collect();
                    let vs: Vec<u32> = sut(|| slot.m.values()).map(|v| v.payload()).collect();
                    if ks.len() != vs.len() {
                        keys_values_order_ok = false;
                    } else {
                        for (k, v) in ks.iter().zip(vs.iter()) {
                            if model.get(k).map(|e| e.p) != Some(*v) {
                                keys_values_order_ok = false;
                            }
                        }
                    }
                    consume("keys", sut(|| slot.m.keys()), total, clone_at, Some(&|i| i.clone()), Some(&|i| format!("{:?}", i)), &mut wrong, &|k| {
                        k.check("keys");
                        (Some(k.kv()), None, k.oid(), 0)
                    })
                }
                IterKind::Values => consume("values", sut(|| slot.m.values()), total, clone_at, Some(&|i| i.clone()), Some(&|i| format!("{:?}", i)), &mut wrong, &|v| {
                    v.check("values");
                    (None, Some(v.payload()), 0, v.oid())
                }),
                IterKind::IterMut => consume("iter_mut", sut(|| slot.m.iter_mut()), total, None, None, Some(&|i| format!("{:?}", i)), &mut wrong, &|(k, v)| {
                    k.check("iter_mut");
                    v.check("iter_mut");
                    (Some(k.kv()), Some(v.payload()), k.oid(), v.oid())
                }),
                IterKind::MutIntoIter => consume("&mut map into_iter", sut(|| (&mut slot.m).into_iter()), total, None, None, None, &mut wrong, &|(k, v)| {
                    k.check("iter_mut");
                    v.check("iter_mut");
                    (Some(k.kv()), Some(v.payload()), k.oid(), v.oid())
                }),
                IterKind::ValuesMut => consume("values_mut", sut(|| slot.m.values_mut()), total, None, None, Some(&|i| format!("{:?}", i)), &mut wrong, &|v| {
                    v.check("values_mut");
                    (None, Some(v.payload()), 0, v.oid())
                }),
            };
        });
        match co.result {
            Ok(()) => {
                if !keys_values_order_ok {
                    wrong.push("keys() and values() do not enumerate in the same order".to_string());
                }
                // multiset comparison with the model
                if wrong.is_empty() {
                    let model = &self.maps[mi].model;
                    let mut g: Vec<(Option<u32>, Option<u32>)> = got.iter().map(|x| (x.0, x.1)).collect();
                    g.sort();
                    let with_k = got.first().map_or(true, |x| x.0.is_some());
                    let with_v = got.first().map_or(true, |x| x.1.is_some());
                    let mut want: Vec<(Option<u32>, Option<u32>)> = model.iter().map(|(&kv, e)| (if with_k { Some(kv) } else { None }, if with_v { Some(e.p) } else { None })).collect();
                    want.sort();
                    if g != want && !(got.is_empty() && model.is_empty()) {
                        wrong.push(format!("{:?} yielded {:?}, contents are {:?}", kind, g, want));
                    }
                }
                for w in wrong {
                    acc.anomaly("iter-mismatch", w);
                    acc.out.fatal = true;
                }
                if before.split {
                    acc.probe("iteration-while-split");
                }
                acc.out.res = format!("{:?} {}", kind, got.len());
            }
            Err(pn) => self.handle_panic(acc, pn, &[]),
        }
    }

    pub(crate) fn op_eq_check(&mut self, acc: &mut Acc, a: usize, b: usize) {
        if a >= self.maps.len() || b >= self.maps.len() {
            acc.out.res = "skipped".to_string();
            return;
        }
        let (ma, mb) = (&self.maps[a], &self.maps[b]);
        acc.out.before = Some(ma.m.verif_state());
        acc.out.after = Some(mb.m.verif_state());
        let expect = ma.model.len() == mb.model.len() && ma.model.iter().all(|(k, e)| mb.model.get(k).map(|f| f.p) == Some(e.p));
        let co = call(|| {
            let ab = sut(|| ma.m == mb.m);
            let ba = sut(|| mb.m == ma.m);
            let aa = sut(|| ma.m == ma.m);
            (ab, ba, aa)
        });
        match co.result {
            Ok((ab, ba, aa)) => {
                if ab != expect || ba != expect || !aa {
                    acc.anomaly("eq-mismatch", format!("a==b: {} b==a: {} a==a: {} expected {}", ab, ba, aa, expect));
                }
                acc.out.res = format!("{}", ab);
            }
            Err(pn) => self.handle_panic(acc, pn, &[]),
        }
    }

    /// C04 probe: fill the map to capacity with never-seen keys.
    pub(crate) fn op_probe(&mut self, acc: &mut Acc, mi: usize, max: u32) {
        let before = self.maps[mi].m.verif_state();
        let slot = &mut self.maps[mi];
        let (cap, len) = (slot.m.capacity(), slot.m.len());
        if cap < len {
            acc.internal("capacity-below-len", format!("capacity()={} < len()={}", cap, len));
            return;
        }
        if K::CLASS.is_zst() {
            acc.out.res = "probe skipped (one possible key)".to_string();
            return;
        }
        // degenerate hashers make every insertion O(n): keep the probe affordable there
        let mode_cap = match slot.m.hasher().mode {
            crate::hasher::HashMode::Good | crate::hasher::HashMode::SameH2 => 5000,
            crate::hasher::HashMode::Clustered => 800,
            crate::hasher::HashMode::LowEntropy => 300,
            crate::hasher::HashMode::AllCollide => 150,
        };
        let n = (cap - len).min(max as usize).min(mode_cap);
        let mut last_cap = cap;
        let mut inserted = 0usize;
        for _ in 0..n {
            let kv = self.fresh_key;
            self.fresh_key += 1;
            let key = K::make(kv);
            let val = V::make(kv);
            let (kid, vid) = (key.oid(), val.oid());
            // the promised insertions may come through any inserting API
            let co = call(|| match kv % 4 {
                0 => sut(|| slot.m.insert(key, val)).is_some(),
                1 => {
                    sut(|| {
                        slot.m.entry(key).or_insert(val);
                    });
                    false
                }
                2 => {
                    let look = K::probe(kv);
                    sut(|| {
                        slot.m.raw_entry_mut().from_key(&look).insert(key, val);
                    });
                    false
                }
                _ => {
                    sut(|| {
                        slot.m.entry(key).insert(val);
                    });
                    false
                }
            });
            match co.result {
                Ok(r) => {
                    if r {
                        acc.wrong(format!("probe: fresh key {} was already present", kv));
                    }
                    slot.model.insert(kv, MEntry { kid, vid, p: V::norm(kv) });
                    inserted += 1;
                    if co.alloc.allocs > 0 {
                        acc.anomaly("probe-alloc", format!("insertion {} of {} within capacity allocated a table (capacity {} len {})", inserted, n, cap, len));
                    }
                    let c = slot.m.capacity();
                    if c < last_cap {
                        acc.anomaly("probe-capacity-decreased", format!("capacity() went from {} to {} during the probe", last_cap, c));
                    }
                    last_cap = c;
                }
                Err(pn) => {
                    let s = format!("{:?}", pn);
                    acc.anomaly("probe-panic", format!("insertion {} of {} within capacity panicked: {}", inserted + 1, n, s));
                    acc.out.fatal = true;
                    acc.out.res = "panic".to_string();
                    return;
                }
            }
        }
        let after = slot.m.verif_state();
        if inserted >= 1 && inserted == cap - len && after.split {
            acc.anomaly("probe-resize-pending", format!("resize still pending after filling to capacity ({} insertions, old_len={})", inserted, after.old_len));
        }
        if before.split {
            acc.probe("probe-while-split");
        }
        acc.out.before = Some(before);
        acc.out.after = Some(after);
        slot.countdown = rearm(&after);
        acc.out.res = format!("probe {}", inserted);
    }
}
