//! Driving one run: execute the schedule, evaluate the oracles, attribute anomalies.

use crate::alloc;
use crate::ctx;
use crate::elems::{ElemClass, KeyT, PVal, TKey, TVal, ValT};
use crate::ops::*;
use crate::props::{owns, Prop};
use crate::rng::splitmix64;
use crate::world::*;
use std::collections::BTreeMap;

#[derive(Default)]
pub struct RunOutcome {
    pub violation: Option<Anomaly>,
    /// a violation that leaves the collections intact, so that the run goes on (and later,
    /// different violations are not masked): first one of the run
    pub soft: Option<Anomaly>,
    pub foreign: Vec<&'static str>,
    pub steps: usize,
    pub states: Vec<u64>,
    pub nontrivial: bool,
    pub probes: Vec<&'static str>,
    pub op_kinds: Vec<&'static str>,
    pub faults: BTreeMap<String, u64>,
    pub transcript: Vec<String>,
    /// C07: the crash point at which the violation was observed
    pub fault: Option<Fault>,
}

pub fn kind_hash(kind: &str) -> u64 {
    let mut h = 0xcbf2_9ce4_8422_2325u64;
    for b in kind.bytes() {
        h = (h ^ b as u64).wrapping_mul(0x100_0000_01b3);
    }
    h
}

pub fn run_spec(prop: Prop, spec: &RunSpec, want_transcript: bool) -> RunOutcome {
    // C05 quantifies over every safe call sequence: destructors of stored objects are user
    // code too, so there they are crash points of the general fuse
    ctx::with(|c| c.drop_in_seq = prop == Prop::C05);
    if prop == Prop::C07 {
        let seed = splitmix64(spec.ops.len() as u64 ^ spec.cfg.universe as u64);
        return match spec.cfg.elem {
            ElemClass::Plain => crate::c07::run_c07::<u32, PVal>(spec, seed),
            ElemClass::Tracked => crate::c07::run_c07::<TKey, TVal>(spec, seed),
            ElemClass::Zst => crate::c07::run_c07::<(), ()>(spec, seed),
            ElemClass::ZstDrop => crate::c07::run_c07::<crate::elems::ZKey, crate::elems::ZVal>(spec, seed),
        };
    }
    if prop == Prop::C10 {
        return match spec.cfg.elem {
            ElemClass::Plain => crate::c10::run_c10::<u32, PVal>(spec, crate::THOROUGH.load(std::sync::atomic::Ordering::Relaxed)),
            ElemClass::Tracked => crate::c10::run_c10::<TKey, TVal>(spec, crate::THOROUGH.load(std::sync::atomic::Ordering::Relaxed)),
            ElemClass::Zst => crate::c10::run_c10::<(), ()>(spec, crate::THOROUGH.load(std::sync::atomic::Ordering::Relaxed)),
            ElemClass::ZstDrop => crate::c10::run_c10::<crate::elems::ZKey, crate::elems::ZVal>(spec, crate::THOROUGH.load(std::sync::atomic::Ordering::Relaxed)),
        };
    }
    if matches!(spec.mode.as_deref(), Some("enum-chains") | Some("enum-prefixes")) {
        let th = crate::THOROUGH.load(std::sync::atomic::Ordering::Relaxed);
        return match spec.cfg.elem {
            ElemClass::Plain => crate::variants::run_variants::<u32, PVal>(prop, spec, th),
            ElemClass::Tracked => crate::variants::run_variants::<TKey, TVal>(prop, spec, th),
            ElemClass::Zst => crate::variants::run_variants::<(), ()>(prop, spec, th),
            ElemClass::ZstDrop => crate::variants::run_variants::<crate::elems::ZKey, crate::elems::ZVal>(prop, spec, th),
        };
    }
    match spec.cfg.elem {
        ElemClass::Plain => run_generic::<u32, PVal>(prop, spec, want_transcript),
        ElemClass::Tracked => run_generic::<TKey, TVal>(prop, spec, want_transcript),
        ElemClass::Zst => run_generic::<(), ()>(prop, spec, want_transcript),
        ElemClass::ZstDrop => run_generic::<crate::elems::ZKey, crate::elems::ZVal>(prop, spec, want_transcript),
    }
}

pub fn begin_run() {
    alloc::reset_run();
    ctx::reset_run();
}

/// Violations after which the collections are intact and the model is still right.
pub fn is_soft(a: &Anomaly) -> bool {
    a.class == "keyless-replace-panic"
}

/// Fold the anomalies of one step into the outcome. Returns true if the run must stop.
pub fn absorb(prop: Prop, out: &mut RunOutcome, anomalies: Vec<Anomaly>, fatal: bool) -> bool {
    let mut stop = fatal;
    for a in anomalies {
        if owns(prop, &a) && is_soft(&a) {
            if out.soft.is_none() {
                out.soft = Some(a);
            }
        } else if owns(prop, &a) {
            if out.violation.is_none() {
                out.violation = Some(a);
            }
            stop = true;
        } else {
            if let Some(want) = std::env::var_os("GSIM_DEBUG_FOREIGN") {
                if want.to_str() == Some(a.class) {
                    eprintln!("foreign run={} {} {}#{}: {}", crate::CURRENT_RUN.load(std::sync::atomic::Ordering::Relaxed), a.class, a.op_kind, a.op_index, a.detail);
                }
            }
            out.foreign.push(a.class);
        }
    }
    stop
}

pub fn state_key<K: KeyT>(cfg: &Config, op_kind: &str, st: &griddle::hash_map::VerifState, hmode: u8) -> u64 {
    splitmix64(kind_hash(op_kind) ^ abstract_state(st).wrapping_mul(0x9E37_79B9_7F4A_7C15) ^ ((K::CLASS as u64) << 56) ^ ((hmode as u64) << 60) ^ (cfg.universe as u64 == 1) as u64)
}

/// Logic-error keys (C05): Hash/Eq are inconsistent, so results and contents are unspecified.
/// Only memory safety is judged: the ledger (use after drop, double storage), I1, ASan / Miri
/// and the canaries. After every call the models adopt what the collections hold.
fn run_chaos<K: KeyT, V: ValT>(prop: Prop, spec: &RunSpec, seed: u64) -> RunOutcome {
    begin_run();
    let mut out = RunOutcome::default();
    let mut w: World<K, V> = World::new(&spec.cfg);
    ctx::with(|c| {
        let mut ch = ctx::Chaos::from_seed(seed);
        if K::CLASS.is_zst() {
            // zero-sized keys: a lying Eq is what makes collections of several elements
            ch.kind |= 4;
            ch.pct = ch.pct.max(25);
        }
        c.chaos = Some(ch);
    });
    let hmode = spec.cfg.map_hashers.first().or(spec.cfg.set_hashers.first()).map_or(0, |h| h.mode as u8);
    let mut stopped = false;
    for (i, op) in spec.ops.iter().enumerate() {
        ctx::chaos_tick(i);
        let so = w.exec(i, op, None, false);
        out.steps += 1;
        out.op_kinds.push(op.kind());
        if let Some(st) = so.before.as_ref() {
            if st.split {
                out.nontrivial = true;
            }
            out.states.push(splitmix64(state_key::<K>(&spec.cfg, op.kind(), st, hmode) ^ 0xC4A0));
        }
        let mut anomalies: Vec<Anomaly> = Vec::new();
        let mut internal_panic = false;
        for a in so.anomalies {
            match a.class {
                // memory-safety evidence stays valid
                "ledger" | "I1-cursor" => anomalies.push(a),
                // a panic that is not one of the documented ones came out of the collection:
                // its state is unknown from here on
                // (a documented panic the model did not expect - `map[&k]` on a key that cannot
                // be found any more - happens before anything is modified)
                "unexpected-panic" if a.detail.contains("panic:documented:index") => {}
                "unexpected-panic" => {
                    internal_panic = true;
                    out.foreign.push("chaos-panic");
                    if std::env::var_os("GSIM_DEBUG_CHAOS").is_some() {
                        eprintln!("chaos-panic {} {}: {}", a.op_kind, a.op_index, a.detail);
                    }
                }
                // wrong results are what logic errors buy
                _ => {
                    if std::env::var_os("GSIM_DEBUG_CHAOS").is_some() && matches!(a.class, "three-tables" | "live-tables" | "I2-headroom" | "capacity-below-len") {
                        eprintln!("chaos-foreign {} {} {}: {}", a.class, a.op_kind, a.op_index, a.detail);
                    }
                }
            }
        }
        if internal_panic || so.injected.is_some() {
            stopped = true;
        } else {
            match w.adopt_observed(None) {
                Ok(()) => anomalies.extend(w.chaos_structural(i, op.kind())),
                Err(_) => {
                    out.foreign.push("chaos-panic");
                    stopped = true;
                }
            }
        }
        if absorb(prop, &mut out, anomalies, false) {
            stopped = true;
        }
        if stopped {
            break;
        }
    }
    let (ph, pe) = ctx::with(|c| c.chaos.map_or((0, 0), |ch| (ch.perturbed_hashes, ch.perturbed_eqs)));
    if ph > 0 {
        *out.faults.entry("inconsistent-hash".to_string()).or_insert(0) += ph;
    }
    if pe > 0 {
        *out.faults.entry("inconsistent-eq".to_string()).or_insert(0) += pe;
    }
    out.probes.push("logic-error-keys-run");
    if stopped {
        std::mem::forget(w);
        ctx::with(|c| c.chaos = None);
    } else {
        // destructors must be safe too; leaks are not judged (unspecified, not undefined)
        let n = spec.ops.len();
        let a = w.teardown(n, false);
        ctx::with(|c| c.chaos = None);
        let a: Vec<Anomaly> = a.into_iter().filter(|a| a.class == "ledger").collect();
        absorb(prop, &mut out, a, false);
    }
    out
}

fn run_generic<K: KeyT, V: ValT>(prop: Prop, spec: &RunSpec, want_transcript: bool) -> RunOutcome {
    if let Some(seed) = spec.cfg.chaos {
        return run_chaos::<K, V>(prop, spec, seed);
    }
    begin_run();
    let mut out = RunOutcome::default();
    let mut w: World<K, V> = World::new(&spec.cfg);
    if want_transcript {
        w.transcript = Some(Vec::new());
    }
    let mut leak_check = true;
    let mut stopped = false;
    let hmode = spec.cfg.map_hashers.first().or(spec.cfg.set_hashers.first()).map_or(0, |h| h.mode as u8);
    // C05 after an interrupted clone_from: the destination's contents are unspecified, and on
    // a defective tree they need not even be self-consistent. C05 is about memory safety only,
    // so from there on the run goes on *whatever lookups answer* (the models adopt what
    // iteration yields after every call, wrong results are not its business) and judges
    // structure: liveness, no object stored twice, I1, survival under ASan. Stopping at the
    // first wrong answer would stop short of the out-of-bounds insertion of defect D8.
    let mut structural = false;
    for (i, op) in spec.ops.iter().enumerate() {
        let fault = spec.faults.iter().find(|f| f.at == i);
        let mut fuse = fault.map(|f| f.nth);
        if let Some(f) = fault {
            if f.site == Some(ctx::Site::Drop) {
                // the nth destructor run inside this operation panics
                fuse = None;
                ctx::with(|c| c.drop_fuse = Some(f.nth));
            }
        }
        let so = w.exec(i, op, fuse, false);
        ctx::with(|c| c.drop_fuse = None);
        if structural {
            out.steps += 1;
            out.op_kinds.push(op.kind());
            let mut anomalies: Vec<Anomaly> = Vec::new();
            let mut internal_panic = false;
            for a in so.anomalies {
                match a.class {
                    "ledger" | "I1-cursor" => anomalies.push(a),
                    "unexpected-panic" if a.detail.contains("panic:documented:index") => {}
                    "unexpected-panic" => {
                        internal_panic = true;
                        out.foreign.push("unexpected-panic");
                    }
                    _ => {}
                }
            }
            if let Some((site, _)) = so.injected {
                *out.faults.entry(format!("panic@{}", site.name())).or_insert(0) += 1;
            }
            if internal_panic {
                stopped = true;
            } else {
                match w.adopt_observed(None) {
                    Ok(()) => anomalies.extend(w.chaos_structural(i, op.kind())),
                    Err(_) => stopped = true,
                }
            }
            if absorb(prop, &mut out, anomalies, false) {
                stopped = true;
            }
            if stopped {
                break;
            }
            continue;
        }
        out.steps += 1;
        out.op_kinds.push(op.kind());
        for p in &so.probes {
            out.probes.push(p);
        }
        if so.oom_fired > 0 {
            *out.faults.entry("alloc-failure".to_string()).or_insert(0) += so.oom_fired;
        }
        for (k, v) in &so.faults_extra {
            *out.faults.entry(k.to_string()).or_insert(0) += v;
        }
        if let Some(st) = so.before.as_ref() {
            if st.split {
                out.nontrivial = true;
            }
            let mut key = state_key::<K>(&spec.cfg, op.kind(), st, hmode);
            if matches!(op, Op::EqCheck { .. } | Op::SAlgebra { .. }) {
                // two-collection observations: the pair of abstract states is the case
                if let Some(st2) = so.after.as_ref() {
                    key = splitmix64(key ^ abstract_state(st2).wrapping_mul(0xD6E8_FEB8_6659_FD93));
                }
            }
            out.states.push(key);
        }
        if let Some(st) = so.after.as_ref() {
            if st.split {
                out.nontrivial = true;
            }
        }
        let fam = family_of(op);
        let mut anomalies = so.anomalies;
        let fatal = so.fatal;
        if !fatal && so.injected.is_none() && prop != Prop::C17 {
            let every = spec.cfg.full_check_every.max(1) as usize;
            if i % every == 0 || i + 1 == spec.ops.len() {
                anomalies.extend(w.check_contents(i, op.kind(), fam, true));
                anomalies.extend(w.check_ledger(i, op.kind(), leak_check));
            }
        }
        if let Some((site, _)) = so.injected {
            *out.faults.entry(format!("panic@{}", site.name())).or_insert(0) += 1;
            leak_check = false;
            if prop == Prop::C08 {
                // C08 also covers states reached through a caught panic: the model adopts what
                // lookups find, and every iterator is then judged against that
                let interrupted_clone_from = matches!(op, Op::CloneFrom { .. } | Op::SCloneFrom { .. });
                if interrupted_clone_from || w.adopt_by_lookup().is_err() {
                    stopped = true;
                }
            } else if prop == Prop::C17 || prop == Prop::C05 {
                // the model is stale after an interrupted call: adopt what the collections hold
                // (C07 judges that state; here only the two builds are compared) and go on
                let interrupted_clone_from = matches!(op, Op::CloneFrom { .. } | Op::SCloneFrom { .. });
                if let Err(e) = w.adopt_observed(interrupted_clone_from.then(|| op.clone())) {
                    if let Some(t) = w.transcript.as_mut() {
                        t.push(format!("adopt failed: {}", e));
                    }
                    stopped = true;
                }
                if prop == Prop::C05 && !stopped && interrupted_clone_from {
                    structural = true;
                    ctx::with(|c| c.structural = true);
                    out.probes.push("structural-tail-after-interrupted-clone_from");
                }
                if prop == Prop::C05 && !stopped {
                    // the cached position must agree with the old table after *every* call,
                    // also one that unwound
                    let states = w.maps.iter().map(|s| s.m.verif_state()).chain(w.sets.iter().map(|s| s.s.verif_state()));
                    for st in states {
                        if st.split && (st.cursor_remaining != st.old_len || !st.cursor_exact) {
                            anomalies.push(Anomaly {
                                class: "I1-cursor",
                                family: fam,
                                op_index: i,
                                op_kind: op.kind(),
                                detail: format!("after the caught panic ({}): cached iterator remaining={} old_len={} exact={}", site.name(), st.cursor_remaining, st.old_len, st.cursor_exact),
                            });
                            stopped = true;
                        }
                    }
                }
            } else {
                // an injected panic outside the fault-enumeration driver: the model is stale
                stopped = true;
            }
        }
        if let Some(t) = w.transcript.as_mut() {
            let mut line = String::new();
            for s in &w.maps {
                let st = s.m.verif_state();
                line.push_str(&format!(" m[len={} cap={} split={} old={} buckets={}]", s.m.len(), s.m.capacity(), st.split, st.old_len, st.main_buckets));
            }
            for s in &w.sets {
                let st = s.s.verif_state();
                line.push_str(&format!(" s[len={} cap={} split={} old={} buckets={}]", s.s.len(), s.s.capacity(), st.split, st.old_len, st.main_buckets));
            }
            t.push(line);
        }
        if absorb(prop, &mut out, anomalies, fatal) {
            stopped = true;
        }
        if stopped {
            break;
        }
    }
    if w.transcript.is_some() && !stopped {
        let fin = w.final_contents();
        if let Some(t) = w.transcript.as_mut() {
            t.push(fin);
        }
    }
    if let Some(t) = w.transcript.take() {
        out.transcript = t;
    }
    if stopped {
        // the collections may be inconsistent: never run their destructors
        std::mem::forget(w);
    } else {
        let n = spec.ops.len();
        let mut a = w.teardown(n, leak_check && !structural);
        if structural {
            a.retain(|a| a.class == "ledger");
        }
        absorb(prop, &mut out, a, false);
    }
    ctx::with(|c| c.structural = false);
    out
}
