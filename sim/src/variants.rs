//! Enumerated continuations of a sampled state. The schedule's operations build a state; then
//! every member of an enumerated family of continuations is applied, each to a rebuilt copy
//! of that state, under the ordinary per-step oracles:
//!
//! * `enum-chains`  (C12): every Entry / RawEntryMut method chain of the grammar up to depth 3,
//!   for a key of each location class (absent, main table, next to be moved out of the old
//!   table, deep in the old table), followed by two insertions of fresh keys;
//! * `enum-prefixes` (C06, C08, C09): drain / into_iter / drain_filter consumed for every k in
//!   0..=len and then dropped - or forgotten -, followed by a few insertions.

use crate::ctx;
use crate::elems::{ElemClass, KeyT, ValT};
use crate::ops::*;
use crate::props::{owns, Prop};
use crate::rng::splitmix64;
use crate::run::{begin_run, kind_hash, RunOutcome};
use crate::world::*;

fn rebuild<K: KeyT, V: ValT>(spec: &RunSpec) -> Option<World<K, V>> {
    begin_run();
    let mut w: World<K, V> = World::new(&spec.cfg);
    for (i, op) in spec.ops.iter().enumerate() {
        let so = w.exec(i, op, None, false);
        if so.fatal || so.injected.is_some() {
            std::mem::forget(w);
            return None;
        }
    }
    Some(w)
}

/// All Entry chains of depth <= `depth` that make sense for an entry that starts occupied /
/// vacant (`present`). Terminal steps end a chain.
pub fn entry_chains(present: bool, depth: usize) -> Vec<Vec<EStep>> {
    use EStep::*;
    let e_all = [OrInsert, OrInsertWith, OrInsertWithKey, OrDefault, Key, InsertE, AndModify, AndReplaceSome, AndReplaceNone];
    let occ = [OccKey, OccGet, OccGetMut, OccInsert, OccIntoMut, OccRemove, OccRemoveEntry, OccReplaceEntry, OccReplaceKey, OccReplaceWithSome, OccReplaceWithNone];
    let vac = [VacKey, VacIntoKey, VacInsert];
    let mut out: Vec<Vec<EStep>> = Vec::new();
    fn rec(cur: &mut Vec<EStep>, present: bool, has_key: bool, left: usize, out: &mut Vec<Vec<EStep>>, e_all: &[EStep], occ: &[EStep], vac: &[EStep]) {
        if !cur.is_empty() {
            out.push(cur.clone());
        }
        if left == 0 {
            return;
        }
        let mut cands: Vec<EStep> = e_all.to_vec();
        if present {
            cands.extend_from_slice(occ);
        } else {
            cands.extend_from_slice(vac);
        }
        for s in cands {
            use EStep::*;
            cur.push(s);
            let terminal = matches!(s, OrInsert | OrInsertWith | OrInsertWithKey | OrDefault | OccIntoMut | OccRemove | OccRemoveEntry | OccReplaceEntry | OccReplaceKey | VacIntoKey | VacInsert);
            if terminal {
                out.push(cur.clone());
            } else {
                let (p2, k2) = match s {
                    InsertE => (true, false),
                    AndReplaceNone | OccReplaceWithNone => (if present { false } else { present }, true),
                    _ => (present, has_key),
                };
                rec(cur, p2, k2, left - 1, out, e_all, occ, vac);
            }
            cur.pop();
        }
    }
    rec(&mut Vec::new(), present, true, depth, &mut out, &e_all, &occ, &vac);
    out.sort_by_key(|c| format!("{:?}", c));
    out.dedup();
    out
}

pub fn raw_chains(present: bool, depth: usize) -> Vec<Vec<RStep>> {
    use RStep::*;
    let e_all = [Insert, OrInsert, OrInsertWith, AndModify, AndReplaceSome, AndReplaceNone];
    let occ = [OccKey, OccKeyMut, OccIntoKey, OccGet, OccGetMut, OccIntoMut, OccGetKeyValue, OccGetKeyValueMut, OccIntoKeyValue, OccInsert, OccInsertKey, OccRemove, OccRemoveEntry, OccReplaceWithSome, OccReplaceWithNone];
    let vac = [VacInsert, VacInsertHashedNocheck, VacInsertWithHasher];
    let mut out: Vec<Vec<RStep>> = Vec::new();
    fn rec(cur: &mut Vec<RStep>, present: bool, left: usize, out: &mut Vec<Vec<RStep>>, e_all: &[RStep], occ: &[RStep], vac: &[RStep]) {
        if left == 0 {
            return;
        }
        let mut cands: Vec<RStep> = e_all.to_vec();
        if present {
            cands.extend_from_slice(occ);
        } else {
            cands.extend_from_slice(vac);
        }
        for s in cands {
            use RStep::*;
            cur.push(s);
            out.push(cur.clone());
            let terminal = matches!(s, OrInsert | OrInsertWith | OccIntoKey | OccIntoMut | OccIntoKeyValue | OccRemove | OccRemoveEntry | VacInsert | VacInsertHashedNocheck | VacInsertWithHasher);
            if !terminal {
                let p2 = match s {
                    Insert => true,
                    AndReplaceNone | OccReplaceWithNone => false,
                    _ => present,
                };
                rec(cur, p2, left - 1, out, e_all, occ, vac);
            }
            cur.pop();
        }
    }
    rec(&mut Vec::new(), present, depth, &mut out, &e_all, &occ, &vac);
    out.sort_by_key(|c| format!("{:?}", c));
    out.dedup();
    out
}

/// The continuations for `mode` in the state `w` is in (slot 0 / set slot 0 are the targets).
fn continuations<K: KeyT, V: ValT>(mode: &str, w: &World<K, V>, spec: &RunSpec, thorough: bool) -> Vec<Vec<Op>> {
    let mut out: Vec<Vec<Op>> = Vec::new();
    let uni = spec.cfg.universe.max(1);
    let tail = |p: u32| -> Vec<Op> {
        if K::CLASS.is_zst() {
            vec![]
        } else {
            vec![Op::Insert { m: 0, k: KeySel::Kv(uni + 7), p: p + 1 }, Op::Insert { m: 0, k: KeySel::Kv(uni + 8), p: p + 2 }]
        }
    };
    match mode {
        "enum-chains" => {
            if w.maps.is_empty() {
                return out;
            }
            let slot = &w.maps[0];
            let present: Option<u32> = slot.model.keys().next().copied();
            let absent: u32 = (0..uni + 1).find(|k| !slot.model.contains_key(k)).unwrap_or(uni);
            // key classes: absent, in main, first in the cached iterator's order, deep in the old table
            let mut keys: Vec<(KeySel, bool)> = Vec::new();
            if !K::CLASS.is_zst() || present.is_none() {
                keys.push((KeySel::Kv(if K::CLASS.is_zst() { 0 } else { absent }), false));
            }
            if let Some(p) = present {
                keys.push((KeySel::Main(0, p), true));
                keys.push((KeySel::Old(0, p), true));
                keys.push((KeySel::Old(9, p), true));
            }
            let depth = if thorough { 3 } else { 2 };
            let mut pbase = 1 << 20;
            for (k, pres) in keys {
                for chain in entry_chains(pres, depth) {
                    pbase += 0x400;
                    let mut v = vec![Op::Entry { m: 0, k, chain, p: pbase }];
                    v.extend(tail(pbase + 0x200));
                    out.push(v);
                }
                for how in [Lookup::FromKey, Lookup::FromKeyHashedNocheck, Lookup::FromHash] {
                    for chain in raw_chains(pres, depth) {
                        // the lookup flavour matters for the first step only: vary it on a third of the chains
                        if how != Lookup::FromKey && (chain.len() > 1 && !thorough) {
                            continue;
                        }
                        pbase += 0x400;
                        let mut v = vec![Op::RawMut { m: 0, k, how, chain, p: pbase }];
                        v.extend(tail(pbase + 0x200));
                        out.push(v);
                    }
                }
            }
        }
        "enum-prefixes" => {
            let mlen = w.maps.first().map_or(0, |s| s.model.len()) as u32;
            let slen = w.sets.first().map_or(0, |s| s.model.len()) as u32;
            let mk = |k: u32, forget: bool| if forget { Consume::ForgetAfter(k) } else { Consume::DropAfter(k) };
            if !w.maps.is_empty() {
                for k in 0..=mlen.min(64) {
                    for forget in [false, true] {
                        let mut v = vec![Op::Drain { m: 0, consume: mk(k, forget) }];
                        v.extend(tail(5000 + k));
                        out.push(v);
                        let mut v = vec![Op::IntoIter { m: 0, consume: mk(k, forget), new_cap: 0 }];
                        v.extend(tail(6000 + k));
                        out.push(v);
                        for pred in [Pred::All, Pred::Mask(0x5eed ^ k as u64, 50), Pred::OldOnly] {
                            let mut v = vec![Op::DrainFilter { m: 0, pred, mutate: if k % 2 == 0 { Some(1 << 24) } else { None }, consume: mk(k, forget), drop_panic: if !forget && k % 3 == 1 { Some(1 + k % 2) } else { None } }];
                            v.extend(tail(7000 + k));
                            out.push(v);
                        }
                    }
                }
                for kind in [IterKind::Iter, IterKind::Keys, IterKind::Values, IterKind::RefIntoIter] {
                    for k in 0..=mlen.min(64) {
                        out.push(vec![Op::IterCheck { m: 0, kind, clone_at: Some(k) }]);
                    }
                }
            }
            if !w.sets.is_empty() {
                for k in 0..=slen.min(64) {
                    for forget in [false, true] {
                        out.push(vec![Op::SDrain { s: 0, consume: mk(k, forget) }, Op::SInsert { s: 0, k: KeySel::Kv(uni + 3) }]);
                        out.push(vec![Op::SIntoIter { s: 0, consume: mk(k, forget), new_cap: 0 }, Op::SInsert { s: 0, k: KeySel::Kv(uni + 3) }]);
                        out.push(vec![Op::SDrainFilter { s: 0, pred: Pred::Mask(0xabc ^ k as u64, 60), consume: mk(k, forget), drop_panic: if !forget && k % 3 == 2 { Some(1) } else { None } }, Op::SInsert { s: 0, k: KeySel::Kv(uni + 3) }]);
                    }
                    out.push(vec![Op::SIterCheck { s: 0, clone_at: Some(k) }]);
                }
            }
        }
        _ => {}
    }
    out
}

pub fn run_variants<K: KeyT, V: ValT>(prop: Prop, spec: &RunSpec, thorough: bool) -> RunOutcome {
    let mut out = RunOutcome::default();
    let mode = spec.mode.clone().unwrap_or_default();
    let n = spec.ops.len();
    let w0: World<K, V> = match rebuild(spec) {
        Some(w) => w,
        None => return out,
    };
    let states: Vec<griddle::hash_map::VerifState> = w0.maps.iter().map(|s| s.m.verif_state()).chain(w0.sets.iter().map(|s| s.s.verif_state())).collect();
    out.nontrivial = states.iter().any(|s| s.split);
    let conts = continuations(&mode, &w0, spec, thorough);
    let _ = w0.teardown(n, false);
    let _ = ctx::take_errors();
    let only: Option<usize> = spec.faults.first().map(|f| f.at);
    let hmode = spec.cfg.map_hashers.first().or(spec.cfg.set_hashers.first()).map_or(0, |h| h.mode as u8);
    let leak_check = true;
    for (ci, cont) in conts.iter().enumerate() {
        if crate::past_deadline() {
            break;
        }
        if let Some(o) = only {
            if o != ci {
                continue;
            }
        }
        let mut w: World<K, V> = match rebuild(spec) {
            Some(w) => w,
            None => return out,
        };
        let mut stopped = false;
        for (j, op) in cont.iter().enumerate() {
            let idx = n + j;
            let so = w.exec(idx, op, None, false);
            out.steps += 1;
            if j == 0 {
                out.op_kinds.push(op.kind());
                // the case: (operation with its shape, abstract state before it)
                let shape = kind_hash(&format!("{:?}", op).split("p:").next().unwrap_or("").replace(|c: char| c.is_ascii_digit(), ""));
                for st in &states {
                    if st.split {
                        out.states.push(splitmix64(shape ^ abstract_state(st).wrapping_mul(0x9E37_79B9_7F4A_7C15) ^ ((K::CLASS as u64) << 56) ^ ((hmode as u64) << 60)));
                    }
                }
            }
            for p in &so.probes {
                out.probes.push(p);
            }
            let mut anomalies = so.anomalies;
            if !so.fatal {
                anomalies.extend(w.check_contents(idx, op.kind(), family_of(op), true));
                anomalies.extend(w.check_ledger(idx, op.kind(), leak_check));
            }
            let mut stop = so.fatal;
            for a in anomalies {
                if owns(prop, &a) && crate::run::is_soft(&a) {
                    if out.soft.is_none() {
                        out.soft = Some(a);
                    }
                } else if owns(prop, &a) {
                    if out.violation.is_none() {
                        let mut a = a;
                        a.detail = format!("[continuation {} = {:?}] {}", ci, cont, a.detail);
                        a.detail.truncate(900);
                        out.violation = Some(a);
                        out.fault = Some(Fault { at: ci, nth: 0, site: None });
                    }
                    stop = true;
                } else {
                    if std::env::var("GSIM_DEBUG_FOREIGN").is_ok() {
                        eprintln!("foreign: {} {:?} {} :: {:?}", a.class, a.family, a.detail, cont);
                    }
                    out.foreign.push(a.class);
                }
            }
            if stop {
                stopped = true;
                break;
            }
        }
        if stopped {
            std::mem::forget(w);
            if out.violation.is_some() {
                return out;
            }
            continue;
        }
        for a in w.teardown(n + cont.len(), leak_check) {
            if owns(prop, &a) {
                if out.violation.is_none() {
                    let mut a = a;
                    a.detail = format!("[teardown after continuation {} = {:?}] {}", ci, cont, a.detail);
                    a.detail.truncate(900);
                    out.violation = Some(a);
                    out.fault = Some(Fault { at: ci, nth: 0, site: None });
                }
                return out;
            } else {
                out.foreign.push(a.class);
            }
        }
        *out.faults.entry(if mode == "enum-prefixes" { "cancellation-of-lazy-operation".to_string() } else { "none".to_string() }).or_insert(0) += (mode == "enum-prefixes") as u64;
    }
    out.faults.retain(|_, v| *v > 0);
    out
}
