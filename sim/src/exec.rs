//! Execution of one operation against the real collection and the reference model, with the
//! per-step oracles (results, work bounds, progress, headroom, cursor agreement, ledger).

use crate::alloc;
use crate::ctx::{self, ObjState};
use crate::elems::{ElemClass, KeyT, ValT, DEFAULT_PAYLOAD};
use crate::hasher::SimHasher;
use crate::ops::*;
use crate::world::*;
use griddle::hash_map::{Entry, RawEntryMut, VerifLoc, VerifState};
use std::collections::{BTreeMap, BTreeSet};

pub const R_STATED: u64 = 8;

#[derive(Clone, Copy, Debug, PartialEq, Eq)]
pub enum Cost {
    /// adds one key (or overwrites through `insert`)
    KeyAdding,
    /// lookup, removal, in-place update
    Constant,
    /// reserve mid-resize, shrink, clone, bulk operations: unbounded by the statement
    Exempt,
}

pub struct StepOut {
    pub res: String,
    pub anomalies: Vec<Anomaly>,
    /// the model can no longer be trusted (unexpected panic, wrong result): stop the run
    pub fatal: bool,
    pub injected: Option<(ctx::Site, u64)>,
    pub cb_log: Vec<ctx::Site>,
    pub before: Option<VerifState>,
    pub after: Option<VerifState>,
    pub probes: Vec<&'static str>,
    pub oom_fired: u64,
    pub multi_insert: bool,
    pub faults_extra: BTreeMap<&'static str, u64>,
}

pub struct Acc<'a> {
    pub out: &'a mut StepOut,
    pub idx: usize,
    pub kind: &'static str,
    pub family: Family,
}

impl<'a> Acc<'a> {
    pub fn anomaly(&mut self, class: &'static str, detail: String) {
        self.out.anomalies.push(Anomaly {
            class,
            family: self.family,
            op_index: self.idx,
            op_kind: self.kind,
            detail,
        });
    }
    pub fn internal(&mut self, class: &'static str, detail: String) {
        self.out.anomalies.push(Anomaly {
            class,
            family: Family::Internal,
            op_index: self.idx,
            op_kind: self.kind,
            detail,
        });
    }
    pub fn wrong(&mut self, detail: String) {
        self.anomaly("result-mismatch", detail);
        self.out.fatal = true;
    }
    pub fn probe(&mut self, name: &'static str) {
        self.out.probes.push(name);
    }
}

fn ceil_div(a: usize, b: usize) -> usize {
    (a + b - 1) / b.max(1)
}

pub fn resolve_arg<K, V>(n: Arg, cap: usize, len: usize) -> usize {
    let elem = core::mem::size_of::<(K, V)>().max(1);
    let off = |base: usize, d: i64| -> usize {
        if d >= 0 {
            base.saturating_add(d as usize)
        } else {
            base.saturating_sub((-d) as usize)
        }
    };
    match n {
        Arg::Abs(x) => x,
        Arg::Free(d) => off(cap.saturating_sub(len), d as i64),
        Arg::Len(d) => off(len, d as i64),
        Arg::Cap(d) => off(cap, d as i64),
        Arg::TwoCap => cap.saturating_mul(2),
        Arg::NearMax(d) => usize::MAX - d,
        Arg::NearIsize(d) => off(isize::MAX as usize, d),
        Arg::NearElemMax(d) => off(isize::MAX as usize / elem, d),
        Arg::OomHuge(d) => (1usize << 27) + d as usize,
    }
}

/// Capacity-relative arguments compound (reserve(2*cap) ten times is an 8M-bucket table and
/// every later iteration is O(buckets)); they are only honoured while the table is small.
pub fn arg_allowed(n: Arg, cap: usize) -> bool {
    match n {
        Arg::Free(_) | Arg::Len(_) | Arg::Cap(_) | Arg::TwoCap => cap <= 4096,
        Arg::Abs(x) => x <= 4096,
        _ => true,
    }
}

/// Is this resolved request one that must fail (overflow) rather than allocate?
pub fn is_overflow_huge(n: usize) -> bool {
    n >= (1usize << 40)
}

fn fmt_panic(p: &Panic) -> String {
    match p {
        Panic::Injected(s, n) => format!("panic:injected:{}#{}", s.name(), n),
        Panic::Message(m) => {
            if m.contains("no entry found for key") {
                "panic:documented:index".to_string()
            } else if m.contains("capacity overflow") {
                "panic:documented:capacity-overflow".to_string()
            } else {
                format!("panic:{}", m)
            }
        }
    }
}

impl<K: KeyT, V: ValT> MapSlot<K, V> {
    pub fn resolve_key(&self, k: &KeySel) -> u32 {
        match *k {
            KeySel::Kv(kv) => kv,
            KeySel::Old(rank, fb) | KeySel::Main(rank, fb) => {
                let want_old = matches!(k, KeySel::Old(..));
                let st = self.m.verif_state();
                if want_old && !st.split {
                    return fb;
                }
                let n = self.model.len();
                if n == 0 {
                    return fb;
                }
                // look at up to 48 model keys starting at a rank-derived offset
                let start = (rank as usize).wrapping_mul(7) % n;
                let mut found: Vec<(usize, u32)> = Vec::new();
                for (i, (&kv, _)) in self.model.iter().cycle().skip(start).take(n.min(48)).enumerate() {
                    let probe = K::probe(kv);
                    match self.m.verif_locate(&probe) {
                        VerifLoc::Old { rank: r, .. } if want_old => found.push((r.unwrap_or(usize::MAX - i), kv)),
                        VerifLoc::Main if !want_old => found.push((i, kv)),
                        _ => {}
                    }
                }
                if found.is_empty() {
                    return fb;
                }
                found.sort();
                found[(rank as usize) % found.len()].1
            }
        }
    }

    pub fn eval_pred(&self, pred: &Pred) -> BTreeSet<u32> {
        let mut s = BTreeSet::new();
        for (&kv, _) in self.model.iter() {
            let t = match *pred {
                Pred::None => false,
                Pred::All => true,
                Pred::Mask(seed, pct) => pred_mask(seed, pct, kv),
                Pred::OldOnly | Pred::MainOnly => {
                    let probe = K::probe(kv);
                    let in_old = matches!(self.m.verif_locate(&probe), VerifLoc::Old { .. });
                    in_old == matches!(pred, Pred::OldOnly)
                }
            };
            if t {
                s.insert(kv);
            }
        }
        s
    }
}

/// Compare a value handed back by the collection with what the model says it must be.
pub fn check_val<V: ValT>(acc: &mut Acc, what: &str, got: &V, exp: &MEntry) {
    got.check(what);
    if got.payload() != exp.p || (got.oid() != 0 && got.oid() != exp.vid) {
        acc.wrong(format!(
            "{}: got value payload={} id={} expected payload={} id={}",
            what,
            got.payload(),
            got.oid(),
            exp.p,
            exp.vid
        ));
    }
}

pub fn check_key<K: KeyT>(acc: &mut Acc, what: &str, got: &K, kv: u32, kid: u64) {
    got.check(what);
    if got.kv() != kv || (got.oid() != 0 && kid != 0 && got.oid() != kid) {
        acc.wrong(format!(
            "{}: got key kv={} id={} expected kv={} id={}",
            what,
            got.kv(),
            got.oid(),
            kv,
            kid
        ));
    }
}

pub fn check_opt_val<V: ValT>(acc: &mut Acc, what: &str, got: Option<&V>, exp: Option<&MEntry>) -> String {
    match (got, exp) {
        (Some(g), Some(e)) => {
            check_val(acc, what, g, e);
            format!("Some({})", g.payload())
        }
        (None, None) => "None".to_string(),
        (Some(g), None) => {
            acc.wrong(format!("{}: got Some({}) expected None", what, g.payload()));
            format!("Some({})", g.payload())
        }
        (None, Some(e)) => {
            acc.wrong(format!("{}: got None expected Some({})", what, e.p));
            "None".to_string()
        }
    }
}

impl<K: KeyT, V: ValT> World<K, V> {
    /// Execute one operation. `fuse`: panic at the n-th user callback of this operation.
    pub fn exec(&mut self, idx: usize, op: &Op, fuse: Option<u64>, record_callbacks: bool) -> StepOut {
        ctx::set_step(idx as u64 + 1);
        ctx::with(|c| {
            c.fuse = fuse;
            c.record = record_callbacks;
        });
        let mut out = StepOut {
            res: String::new(),
            anomalies: Vec::new(),
            fatal: false,
            injected: None,
            cb_log: Vec::new(),
            before: None,
            after: None,
            probes: Vec::new(),
            oom_fired: 0,
            multi_insert: false,
            faults_extra: BTreeMap::new(),
        };
        {
            let mut acc = Acc {
                out: &mut out,
                idx,
                kind: op.kind(),
                family: family_of(op),
            };
            self.dispatch(&mut acc, op);
        }
        ctx::with(|c| {
            c.fuse = None;
            c.record = false;
        });
        if record_callbacks {
            out.cb_log = ctx::with(|c| c.cb_log.clone());
        }
        // ledger errors raised by element callbacks or drops during this step
        for e in ctx::take_errors() {
            out.anomalies.push(Anomaly {
                class: "ledger",
                family: Family::Internal,
                op_index: idx,
                op_kind: op.kind(),
                detail: e,
            });
        }
        // allocator accounting: live tables must match what the hook reports
        if !out.fatal {
            let mut expect = self.forgot_tables;
            for s in &self.maps {
                let st = s.m.verif_state();
                expect += (st.main_buckets > 1) as i64 + st.split as i64;
            }
            for s in &self.sets {
                let st = s.s.verif_state();
                expect += (st.main_buckets > 1) as i64 + st.split as i64;
            }
            let live = alloc::live_tables();
            if live != expect {
                out.anomalies.push(Anomaly {
                    class: "live-tables",
                    family: Family::Internal,
                    op_index: idx,
                    op_kind: op.kind(),
                    detail: format!("{} table allocations live, {} expected from the hook state", live, expect),
                });
            }
            if live - self.forgot_tables > 2 * self.collections() as i64 {
                out.anomalies.push(Anomaly {
                    class: "three-tables",
                    family: Family::Internal,
                    op_index: idx,
                    op_kind: op.kind(),
                    detail: format!("{} table allocations live for {} collections", live - self.forgot_tables, self.collections()),
                });
            }
        }
        if let Some(t) = self.transcript.as_mut() {
            t.push(format!("{} {} -> {}", idx, op.kind(), out.res));
        }
        self.step = idx + 1;
        out
    }

    pub(crate) fn handle_panic(&mut self, acc: &mut Acc, p: Panic, documented_ok: &[&str]) {
        let s = fmt_panic(&p);
        match p {
            Panic::Injected(site, n) => {
                acc.out.injected = Some((site, n));
            }
            Panic::Message(_) => {
                let ok = documented_ok.iter().any(|d| s == format!("panic:documented:{}", d));
                if !ok {
                    acc.anomaly("unexpected-panic", s.clone());
                    acc.out.fatal = true;
                }
            }
        }
        acc.out.res = s;
    }

    /// Per-step monitors on the target map slot (C02 work bounds, C03 progress, C04 headroom,
    /// C05 cursor agreement).
    #[allow(clippy::too_many_arguments)]
    pub(crate) fn post_map(
        &mut self,
        acc: &mut Acc,
        m: usize,
        before: VerifState,
        co: (u64, u64),
        cost: Cost,
        added_new_key: bool,
        removed: usize,
        may_leave_empty_old: bool,
    ) {
        if acc.out.multi_insert {
            // a handle chain that inserted more than once is several key-adding calls
            let slot = &mut self.maps[m];
            let after = slot.m.verif_state();
            acc.out.before = Some(before);
            acc.out.after = Some(after);
            slot.countdown = if after.split && after.old_len > 0 { Some(ceil_div(after.old_len, after.r.max(1)) as u64) } else { None };
            return;
        }
        let slot = &mut self.maps[m];
        let after = slot.m.verif_state();
        acc.out.before = Some(before);
        acc.out.after = Some(after);
        let (hashes, allocs) = co;
        let (len, cap) = (slot.m.len(), slot.m.capacity());
        monitors(acc, before, after, hashes, allocs, cost, added_new_key, removed, may_leave_empty_old, len, cap, &mut slot.countdown, &mut slot.empty_old_seen);
    }

    pub(crate) fn post_set(
        &mut self,
        acc: &mut Acc,
        s: usize,
        before: VerifState,
        co: (u64, u64),
        cost: Cost,
        added_new_key: bool,
        removed: usize,
        may_leave_empty_old: bool,
    ) {
        let slot = &mut self.sets[s];
        let after = slot.s.verif_state();
        acc.out.before = Some(before);
        acc.out.after = Some(after);
        let (hashes, allocs) = co;
        let (len, cap) = (slot.s.len(), slot.s.capacity());
        monitors(acc, before, after, hashes, allocs, cost, added_new_key, removed, may_leave_empty_old, len, cap, &mut slot.countdown, &mut slot.empty_old_seen);
    }
}

#[allow(clippy::too_many_arguments)]
fn monitors(
    acc: &mut Acc,
    before: VerifState,
    after: VerifState,
    hashes: u64,
    allocs: u64,
    cost: Cost,
    added_new_key: bool,
    removed: usize,
    may_leave_empty_old: bool,
    len: usize,
    cap: usize,
    countdown: &mut Option<u64>,
    empty_old_seen: &mut bool,
) {
    let r = after.r.max(1);
    // ---- C04: capacity >= len, I2 headroom
    if cap < len {
        acc.internal("capacity-below-len", format!("capacity()={} < len()={}", cap, len));
    }
    if after.split && after.old_len > 0 {
        let free = after.main_capacity.saturating_sub(after.main_len);
        let need = after.old_len + ceil_div(after.old_len, r);
        if free < need {
            acc.internal(
                "I2-headroom",
                format!("free={} < old_len + ceil(old_len/R) = {} (main_len={} main_cap={} old_len={})", free, need, after.main_len, after.main_capacity, after.old_len),
            );
        }
    }
    // ---- C05: I1 cursor agreement
    if after.split && (after.cursor_remaining != after.old_len || !after.cursor_exact) {
        acc.internal(
            "I1-cursor",
            format!("cached iterator remaining={} old_len={} exact={}", after.cursor_remaining, after.old_len, after.cursor_exact),
        );
    }
    // ---- C02: per-call work
    let moved = if before.split {
        (before.old_len as i64) - (if after.split { after.old_len as i64 } else { 0 }) - removed as i64
    } else {
        0
    };
    match cost {
        Cost::KeyAdding => {
            if hashes > R_STATED + 2 {
                acc.internal("work-hashes", format!("{} hash computations in one key-adding call (bound {})", hashes, R_STATED + 2));
            }
            if allocs > 1 {
                acc.internal("work-allocs", format!("{} table allocations in one key-adding call", allocs));
            }
            if moved > R_STATED as i64 {
                acc.internal("work-moved", format!("{} elements moved in one key-adding call (bound {})", moved, R_STATED));
            }
            if !before.split && after.split {
                acc.probe("resize-started");
            }
        }
        Cost::Constant => {
            if hashes > 1 {
                acc.internal("work-hashes", format!("{} hash computations in a lookup/removal/update call", hashes));
            }
            if allocs > 0 {
                acc.internal("work-allocs", format!("{} table allocations in a lookup/removal/update call", allocs));
            }
            if moved != 0 {
                acc.internal("work-moved", format!("{} elements moved by a lookup/removal/update call", moved));
            }
        }
        Cost::Exempt => {}
    }
    // ---- C03: progress
    match cost {
        Cost::KeyAdding | Cost::Constant => {
            if cost == Cost::KeyAdding && added_new_key {
                // an emptied old table (retain / replace_entry_with window) must be freed by
                // the next key-adding call; a key-adding call never leaves one behind
                if after.split && after.old_len == 0 {
                    acc.internal("progress-empty-old-kept", "an empty old table is still allocated after a key-adding call".to_string());
                }
                if before.split && before.old_len == 0 {
                    acc.probe("empty-old-freed-by-insert");
                }
            }
            if removed > 0 && after.split && after.old_len == 0 && !may_leave_empty_old {
                acc.internal("progress-empty-old-kept", "old table emptied by a removal was not freed at once".to_string());
            }
            if before.split && before.old_len > 0 {
                if cost == Cost::KeyAdding && added_new_key {
                    let want = r.min(before.old_len - removed.min(before.old_len)) as i64;
                    if moved != want {
                        acc.internal("progress-moved", format!("key-adding call moved {} elements, expected min(R, remaining)={}", moved, want));
                    }
                    if let Some(c) = countdown.as_mut() {
                        *c = c.saturating_sub(1);
                    }
                }
                if removed > 0 {
                    if let Some(c) = countdown.as_mut() {
                        let again = ceil_div(after.old_len, r) as u64;
                        if again < *c {
                            *c = again;
                        }
                    }
                }
                if after.split && after.old_len == 0 {
                    // emptied: by remove/entry-removal/drain_filter it must be freed at once;
                    // retain / replace_entry_with may leave it (handled by the caller's probe)
                    *empty_old_seen = true;
                }
                if let Some(0) = *countdown {
                    if after.split && after.old_len > 0 {
                        acc.internal("progress-overdue", format!("resize not finished after ceil(L/R) key-adding calls; old_len={}", after.old_len));
                    }
                }
                if !after.split {
                    *countdown = None;
                    acc.probe("resize-finished");
                }
            }
            if !before.split && after.split {
                *countdown = Some(ceil_div(after.old_len, r) as u64);
            }
        }
        Cost::Exempt => {
            *countdown = if after.split && after.old_len > 0 {
                Some(ceil_div(after.old_len, r) as u64)
            } else {
                None
            };
        }
    }
    if after.split && after.old_len == 0 {
        acc.probe("old-table-present-but-empty");
    }
    if !after.split {
        *empty_old_seen = false;
    }
}
