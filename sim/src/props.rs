//! Per-property configuration: generation profile, which anomaly classes the property owns,
//! how a run is driven.

use crate::gen::{Profile, G};
use crate::world::{Anomaly, Family};

#[derive(Clone, Copy, Debug, PartialEq, Eq, PartialOrd, Ord, Hash)]
pub enum Prop {
    C01 = 1,
    C02,
    C03,
    C04,
    C05,
    C06,
    C07,
    C08,
    C09,
    C10,
    C11,
    C12,
    C13,
    C14,
    C15,
    C16,
    C17,
}

impl Prop {
    pub fn parse(s: &str) -> Option<Prop> {
        let n: u32 = s.trim_start_matches('C').parse().ok()?;
        use Prop::*;
        Some(match n {
            1 => C01,
            2 => C02,
            3 => C03,
            4 => C04,
            5 => C05,
            6 => C06,
            7 => C07,
            8 => C08,
            9 => C09,
            10 => C10,
            11 => C11,
            12 => C12,
            13 => C13,
            14 => C14,
            15 => C15,
            16 => C16,
            17 => C17,
            _ => return None,
        })
    }
    pub fn name(self) -> String {
        format!("C{:02}", self as u32)
    }
}

const MAP_BASIC: &[(G, u32)] = &[
    (G::InsertNew, 30),
    (G::InsertAny, 20),
    (G::Get, 8),
    (G::GetMut, 6),
    (G::GetKeyValue, 3),
    (G::GetKeyValueMut, 3),
    (G::ContainsKey, 3),
    (G::Index, 3),
    (G::Remove, 14),
    (G::RemoveEntry, 6),
    (G::Clear, 1),
    (G::Extend, 3),
    (G::FromIter, 1),
    (G::IterMutWrite, 3),
];
const HANDLES: &[(G, u32)] = &[(G::Entry, 20), (G::RawMut, 16), (G::RawGet, 3)];
const MOVERS: &[(G, u32)] = &[
    (G::Retain, 4),
    (G::DrainFilter, 4),
    (G::Drain, 1),
    (G::Reserve, 4),
    (G::TryReserve, 2),
    (G::ShrinkTo, 3),
    (G::ShrinkToFit, 3),
];
const SET_BASIC: &[(G, u32)] = &[
    (G::SInsert, 30),
    (G::SReplace, 8),
    (G::SRemove, 12),
    (G::STake, 6),
    (G::SGet, 5),
    (G::SContains, 5),
    (G::SGetOrInsert, 6),
    (G::SGetOrInsertOwned, 6),
    (G::SGetOrInsertWith, 6),
    (G::SRetain, 3),
    (G::SDrain, 1),
    (G::SDrainFilter, 3),
    (G::SExtend, 3),
    (G::SClear, 1),
    (G::SReserve, 3),
    (G::SShrinkTo, 2),
    (G::SShrinkToFit, 2),
];

fn cat(parts: &[&[(G, u32)]]) -> Vec<(G, u32)> {
    parts.iter().flat_map(|p| p.iter().copied()).collect()
}

fn scale(part: &[(G, u32)], num: u32, den: u32) -> Vec<(G, u32)> {
    part.iter().map(|&(g, w)| (g, (w * num / den).max(1))).collect()
}

pub fn profile(prop: Prop, thorough: bool) -> Profile {
    let mut p = Profile::base();
    match prop {
        Prop::C01 => {
            p.weights = cat(&[MAP_BASIC, HANDLES, MOVERS, &[(G::CloneTo, 1), (G::CloneFrom, 1), (G::IntoIter, 1)]]);
            p.maps = 2;
        }
        Prop::C02 | Prop::C03 => {
            p.weights = cat(&[MAP_BASIC, HANDLES, MOVERS, &scale(SET_BASIC, 1, 4)]);
            p.sets = 1;
            p.elem = [8, 2, 1];
            p.hashers = [8, 1, 0, 1, 2];
            p.max_len = if thorough { 200 } else { 100 };
        }
        Prop::C04 => {
            p.weights = cat(&[&scale(MAP_BASIC, 1, 1), &scale(HANDLES, 1, 2), &[(G::Retain, 8), (G::DrainFilter, 4), (G::Reserve, 10), (G::TryReserve, 4), (G::ShrinkTo, 10), (G::ShrinkToFit, 8), (G::CloneTo, 2), (G::CloneFrom, 1), (G::Probe, 1)]]);
            p.maps = 2;
            p.end_probe = true;
        }
        Prop::C05 | Prop::C06 => {
            p.weights = cat(&[MAP_BASIC, HANDLES, &scale(MOVERS, 2, 1), &scale(SET_BASIC, 1, 3), &[(G::CloneTo, 2), (G::CloneFrom, 2), (G::IntoIter, 2), (G::Drain, 2), (G::SIntoIter, 1), (G::SCloneTo, 1), (G::SCloneFrom, 1)]]);
            p.maps = 2;
            p.sets = 2;
            p.elem = [2, 7, 1];
            p.forget = true;
            // C05 is about every sequence of safe calls: sizes near usize::MAX included
            p.huge_args = prop == Prop::C05;
            // ... and every element type: zero-sized with a destructor, destructors that panic
            // (C06: zero-sized objects with destructors are counted in and out)
            p.zst_drop = true;
            p.zst_focus = true;
            p.drop_panics = prop == Prop::C05;
            p.elem = [2, 7, 2];
        }
        Prop::C07 => {
            p.weights = cat(&[MAP_BASIC, &scale(HANDLES, 2, 1), &scale(MOVERS, 2, 1), &scale(SET_BASIC, 1, 3), &[(G::CloneTo, 3), (G::CloneFrom, 4), (G::SCloneFrom, 1)]]);
            p.maps = 2;
            p.sets = 1;
            p.elem = [3, 8, 1];
            p.max_len = 40;
            p.max_universe = 256;
            p.long_runs = false;
            p.cancel = true;
            p.zst_focus = true;
        }
        Prop::C08 => {
            p.weights = cat(&[&scale(MAP_BASIC, 1, 2), &scale(HANDLES, 1, 4), &scale(MOVERS, 1, 1), &[(G::IterCheck, 30), (G::Drain, 8), (G::IntoIter, 6), (G::SIterCheck, 10), (G::SDrain, 4), (G::SIntoIter, 3), (G::SInsert, 20), (G::SRemove, 8), (G::SRetain, 2), (G::SReserve, 2), (G::CloneFrom, 3), (G::CloneTo, 2), (G::SCloneFrom, 2), (G::SCloneTo, 1)]]);
            p.maps = 2;
            p.sets = 2;
            p.forget = true;
        }
        Prop::C09 => {
            p.weights = cat(&[&scale(MAP_BASIC, 1, 2), &scale(HANDLES, 1, 4), &[(G::Retain, 25), (G::DrainFilter, 30), (G::Reserve, 3), (G::ShrinkTo, 2), (G::ShrinkToFit, 2), (G::SRetain, 8), (G::SDrainFilter, 10), (G::SInsert, 20), (G::SRemove, 5)]]);
            p.sets = 1;
            p.forget = true;
            p.drop_panics = true;
        }
        Prop::C10 => {
            p.weights = cat(&[MAP_BASIC, &scale(HANDLES, 1, 2), &[(G::Retain, 4), (G::DrainFilter, 2), (G::Reserve, 6), (G::TryReserve, 3), (G::ShrinkTo, 6), (G::ShrinkToFit, 4), (G::SInsert, 20), (G::SRemove, 6), (G::SRetain, 2), (G::SReserve, 3), (G::SShrinkTo, 2)]]);
            p.maps = 1;
            p.sets = 1;
            p.max_len = 40;
            p.max_universe = 1024;
            p.long_runs = false;
            p.elem = [6, 3, 1];
        }
        Prop::C17 => {
            p.weights = cat(&[MAP_BASIC, HANDLES, &scale(MOVERS, 2, 1), &scale(SET_BASIC, 1, 3), &[(G::CloneTo, 2), (G::CloneFrom, 3), (G::TryReserve, 6), (G::Reserve, 4), (G::STryReserve, 2), (G::SAlgebra, 6), (G::SCloneFrom, 1), (G::IterCheck, 2), (G::SIterCheck, 1), (G::Drain, 1), (G::IntoIter, 1), (G::EqCheck, 1), (G::DebugCheck, 1), (G::SFromIter, 1)]]);
            p.maps = 2;
            p.sets = 2;
            p.elem = [5, 4, 1];
            p.huge_args = true;
            p.max_len = 60;
        }
        Prop::C16 => {
            p.weights = cat(&[&scale(MAP_BASIC, 1, 2), &scale(HANDLES, 1, 4), MOVERS, &scale(SET_BASIC, 1, 2), &[(G::SerdeMap, 25), (G::SerdeSet, 40)]]);
            p.maps = 1;
            p.sets = 3;
            p.elem = [12, 0, 1];
            p.keep_pct = 85;
        }
        Prop::C11 => {
            p.weights = cat(&[MAP_BASIC, &scale(HANDLES, 1, 2), MOVERS, &scale(SET_BASIC, 1, 3), &[(G::CloneTo, 12), (G::CloneFrom, 14), (G::EqCheck, 8), (G::SCloneTo, 5), (G::SCloneFrom, 7), (G::SAlgebra, 3), (G::SClear, 2), (G::SDrain, 1)]]);
            p.maps = 3;
            p.sets = 2;
            p.elem = [4, 6, 1];
        }
        Prop::C12 => {
            p.weights = cat(&[&scale(MAP_BASIC, 1, 2), &scale(HANDLES, 4, 1), &scale(MOVERS, 1, 1)]);
        }
        Prop::C13 => {
            p.weights = cat(&[SET_BASIC, &[(G::SAlgebra, 25), (G::SCloneTo, 1), (G::SCloneFrom, 1), (G::SFromIter, 1), (G::SIterCheck, 2), (G::SDebugCheck, 1)]]);
            p.maps = 0;
            p.sets = 3;
        }
        _ => {
            p.weights = cat(&[MAP_BASIC, HANDLES, MOVERS]);
        }
    }
    p
}

fn is_set_op(a: &Anomaly) -> bool {
    a.op_kind.starts_with("set_")
}

/// Does property `prop` own this anomaly (is it a violation of *that* property's statement)?
pub fn owns(prop: Prop, a: &Anomaly) -> bool {
    let c = a.class;
    let fam = a.family;
    let semantic = matches!(c, "result-mismatch" | "contents-mismatch" | "unexpected-panic");
    match prop {
        Prop::C01 => semantic && matches!(fam, Family::MapBasic | Family::Handle) && !is_set_op(a),
        Prop::C02 => matches!(c, "work-hashes" | "work-allocs" | "work-moved"),
        Prop::C03 => matches!(c, "progress-moved" | "progress-overdue" | "progress-empty-old-kept" | "three-tables" | "live-tables"),
        Prop::C04 => matches!(c, "capacity-below-len" | "I2-headroom" | "probe-alloc" | "probe-capacity-decreased" | "probe-panic" | "probe-resize-pending"),
        Prop::C05 => matches!(c, "ledger" | "I1-cursor"),
        Prop::C06 => matches!(c, "ledger" | "leak"),
        Prop::C08 => c == "iter-mismatch" || (semantic && fam == Family::Iter),
        Prop::C09 => c == "partition-mismatch" || (semantic && fam == Family::Lazy),
        Prop::C10 => c == "capacity-contract" || (semantic && fam == Family::Capacity) || matches!(c, "probe-alloc" | "probe-panic"),
        Prop::C11 => matches!(c, "clone-changed-source" | "clone-left-split" | "cross-contents-mismatch") || (semantic && fam == Family::CloneOp) || c == "eq-mismatch" || (semantic && a.op_kind == "set_algebra"),
        Prop::C12 => (semantic && fam == Family::Handle) || c == "keyless-replace-panic",
        Prop::C13 => (semantic || c == "iter-mismatch" || c == "partition-mismatch") && is_set_op(a),
        Prop::C17 => c == "unexpected-panic",
        Prop::C16 => (semantic || c == "serde-mismatch") && fam == Family::Serde,
        Prop::C14 => {
            c == "eq-mismatch"
                || c == "iter-mismatch"
                || (semantic && matches!(fam, Family::Observer | Family::Iter))
                || (semantic && a.op_kind == "set_algebra")
                || (semantic && matches!(a.op_kind, "set_debug_check" | "set_iter_check"))
        }
        _ => false,
    }
}
