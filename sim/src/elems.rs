//! Seam S2: element types. `Plain` = integers, `Tracked` = heap-owning key/value objects with
//! unique ids, canaries and a ledger entry, `Zst` = unit.

use crate::alloc::HarnessGuard;
use crate::ctx::{self, Site};
use std::fmt::Debug;
use std::hash::{Hash, Hasher};

#[derive(Clone, Copy, Debug, PartialEq, Eq, PartialOrd, Ord, Hash, serde::Serialize, serde::Deserialize)]
pub enum ElemClass {
    Plain,
    Tracked,
    Zst,
    /// zero-sized key and value types *with destructors* (counted, and able to panic)
    ZstDrop,
}

impl ElemClass {
    #[inline]
    pub const fn is_zst(self) -> bool {
        matches!(self, ElemClass::Zst | ElemClass::ZstDrop)
    }
    /// do stored objects of this class run a destructor the simulator owns?
    #[inline]
    pub const fn has_drop(self) -> bool {
        matches!(self, ElemClass::Tracked | ElemClass::ZstDrop)
    }
}

pub trait KeyT: Hash + Eq + Clone + Debug + Sized + 'static {
    const CLASS: ElemClass;
    fn make(kv: u32) -> Self;
    /// A lookup key made by the harness: not recorded in the ledger (id 0).
    fn probe(kv: u32) -> Self {
        Self::make(kv)
    }
    fn kv(&self) -> u32;
    /// Object identity (0 when the class has none).
    fn oid(&self) -> u64;
    /// Liveness / integrity check of an object read through the collection.
    fn check(&self, what: &str);
    /// Serde token form (C16).
    fn to_token_u32(&self) -> u32 {
        self.kv()
    }
}

pub trait ValT: Clone + PartialEq + Debug + Default + Sized + 'static {
    fn make(payload: u32) -> Self;
    /// What a payload reads back as after being stored in this type (unit stores nothing).
    fn norm(p: u32) -> u32 {
        p
    }
    fn payload(&self) -> u32;
    fn set_payload(&mut self, p: u32);
    fn oid(&self) -> u64;
    fn check(&self, what: &str);
}

// ---------------------------------------------------------------- Plain

impl KeyT for u32 {
    const CLASS: ElemClass = ElemClass::Plain;
    #[inline]
    fn make(kv: u32) -> Self {
        kv
    }
    #[inline]
    fn kv(&self) -> u32 {
        *self
    }
    #[inline]
    fn oid(&self) -> u64 {
        0
    }
    #[inline]
    fn check(&self, _what: &str) {}
}

/// Plain value: a newtype so that `Default` (used by `or_default`) is distinguishable.
#[derive(Clone, Copy, PartialEq, Eq, Debug, serde::Serialize, serde::Deserialize)]
pub struct PVal(pub u32);
pub const DEFAULT_PAYLOAD: u32 = 0xD0D0_D0D0;
impl Default for PVal {
    fn default() -> Self {
        PVal(DEFAULT_PAYLOAD)
    }
}
impl ValT for PVal {
    #[inline]
    fn make(p: u32) -> Self {
        PVal(p)
    }
    #[inline]
    fn payload(&self) -> u32 {
        self.0
    }
    #[inline]
    fn set_payload(&mut self, p: u32) {
        self.0 = p
    }
    #[inline]
    fn oid(&self) -> u64 {
        0
    }
    #[inline]
    fn check(&self, _what: &str) {}
}

// ---------------------------------------------------------------- Zst

impl KeyT for () {
    const CLASS: ElemClass = ElemClass::Zst;
    fn make(_kv: u32) -> Self {}
    fn kv(&self) -> u32 {
        0
    }
    fn oid(&self) -> u64 {
        0
    }
    fn check(&self, _what: &str) {}
}
impl ValT for () {
    fn make(_p: u32) -> Self {}
    fn norm(_p: u32) -> u32 {
        0
    }
    fn payload(&self) -> u32 {
        0
    }
    fn set_payload(&mut self, _p: u32) {}
    fn oid(&self) -> u64 {
        0
    }
    fn check(&self, _what: &str) {}
}

// ---------------------------------------------------------------- ZstDrop

/// Zero-sized key with a destructor. Objects cannot be told apart, so the ledger is a count:
/// `ctx.zst_live` = constructions (make, clone, default) minus destructor runs.
#[derive(Debug)]
pub struct ZKey(());
#[derive(Debug)]
pub struct ZVal(());

impl KeyT for ZKey {
    const CLASS: ElemClass = ElemClass::ZstDrop;
    fn make(_kv: u32) -> Self {
        ctx::zst_born();
        ZKey(())
    }
    fn kv(&self) -> u32 {
        0
    }
    fn oid(&self) -> u64 {
        0
    }
    fn check(&self, _what: &str) {}
}
impl ValT for ZVal {
    fn make(_p: u32) -> Self {
        ctx::zst_born();
        ZVal(())
    }
    fn norm(_p: u32) -> u32 {
        0
    }
    fn payload(&self) -> u32 {
        0
    }
    fn set_payload(&mut self, _p: u32) {}
    fn oid(&self) -> u64 {
        0
    }
    fn check(&self, _what: &str) {}
}
impl Default for ZVal {
    fn default() -> Self {
        ctx::zst_born();
        ZVal(())
    }
}
impl Hash for ZKey {
    fn hash<H: Hasher>(&self, _state: &mut H) {}
}
impl PartialEq for ZKey {
    fn eq(&self, _other: &Self) -> bool {
        ctx::callback(Site::Eq);
        // (under logic-error keys this lies now and then: the only way to more than one
        // zero-sized element in a collection)
        ctx::chaos_eq(true)
    }
}
impl Eq for ZKey {}
impl PartialEq for ZVal {
    fn eq(&self, _other: &Self) -> bool {
        true
    }
}
impl Clone for ZKey {
    fn clone(&self) -> Self {
        ctx::callback(Site::Clone);
        ctx::zst_born();
        ZKey(())
    }
}
impl Clone for ZVal {
    fn clone(&self) -> Self {
        ctx::callback(Site::Clone);
        ctx::zst_born();
        ZVal(())
    }
}
impl Drop for ZKey {
    fn drop(&mut self) {
        ctx::zst_died();
        ctx::drop_callback();
    }
}
impl Drop for ZVal {
    fn drop(&mut self) {
        ctx::zst_died();
        ctx::drop_callback();
    }
}

// ---------------------------------------------------------------- Tracked

const KEY_CANARY: u64 = 0x4B45_595F_4341_4E41;
const VAL_CANARY: u64 = 0x5641_4C5F_4341_4E41;

pub struct TKey {
    kv: u32,
    id: u64,
    canary: u64,
    heap: Box<u64>,
}

pub struct TVal {
    payload: u32,
    id: u64,
    canary: u64,
    heap: Box<u64>,
}

impl TKey {
    fn build(kv: u32, cloned_from: u64) -> TKey {
        let id = ctx::new_id(true, cloned_from);
        let _g = HarnessGuard::new();
        TKey {
            kv,
            id,
            canary: id ^ KEY_CANARY,
            heap: Box::new(!id),
        }
    }
    #[inline]
    fn intact(&self) -> bool {
        self.canary == self.id ^ KEY_CANARY && *self.heap == !self.id
    }
}

impl TVal {
    fn build(payload: u32, cloned_from: u64) -> TVal {
        let id = ctx::new_id(false, cloned_from);
        let _g = HarnessGuard::new();
        TVal {
            payload,
            id,
            canary: id ^ VAL_CANARY,
            heap: Box::new(!id),
        }
    }
    #[inline]
    fn intact(&self) -> bool {
        self.canary == self.id ^ VAL_CANARY && *self.heap == !self.id
    }
}

impl KeyT for TKey {
    const CLASS: ElemClass = ElemClass::Tracked;
    fn make(kv: u32) -> Self {
        TKey::build(kv, 0)
    }
    fn probe(kv: u32) -> Self {
        let _g = HarnessGuard::new();
        TKey {
            kv,
            id: 0,
            canary: KEY_CANARY,
            heap: Box::new(!0u64),
        }
    }
    fn kv(&self) -> u32 {
        self.kv
    }
    fn oid(&self) -> u64 {
        self.id
    }
    fn check(&self, what: &str) {
        if !self.intact() {
            ctx::note_error(format!("{}: key canary corrupted (kv={} id={})", what, self.kv, self.id));
        } else {
            ctx::check_live(self.id, what);
        }
    }
}

impl ValT for TVal {
    fn make(p: u32) -> Self {
        TVal::build(p, 0)
    }
    fn payload(&self) -> u32 {
        self.payload
    }
    fn set_payload(&mut self, p: u32) {
        self.payload = p
    }
    fn oid(&self) -> u64 {
        self.id
    }
    fn check(&self, what: &str) {
        if !self.intact() {
            ctx::note_error(format!("{}: value canary corrupted (id={})", what, self.id));
        } else {
            ctx::check_live(self.id, what);
        }
    }
}

impl Default for TVal {
    fn default() -> Self {
        TVal::build(DEFAULT_PAYLOAD, 0)
    }
}

impl Hash for TKey {
    fn hash<H: Hasher>(&self, state: &mut H) {
        self.check("hash");
        state.write_u32(self.kv);
    }
}

impl PartialEq for TKey {
    fn eq(&self, other: &Self) -> bool {
        ctx::callback(Site::Eq);
        self.check("eq(lhs)");
        other.check("eq(rhs)");
        ctx::chaos_eq(self.kv == other.kv)
    }
}
impl Eq for TKey {}

impl PartialEq for TVal {
    fn eq(&self, other: &Self) -> bool {
        self.check("value eq(lhs)");
        other.check("value eq(rhs)");
        self.payload == other.payload
    }
}

impl Clone for TKey {
    fn clone(&self) -> Self {
        ctx::callback(Site::Clone);
        self.check("clone");
        TKey::build(self.kv, self.id)
    }
}
impl Clone for TVal {
    fn clone(&self) -> Self {
        ctx::callback(Site::Clone);
        self.check("clone");
        TVal::build(self.payload, self.id)
    }
}

impl Drop for TKey {
    fn drop(&mut self) {
        if !self.intact() {
            ctx::note_error(format!("drop: key canary corrupted (kv={} id={})", self.kv, self.id));
        }
        ctx::note_drop(self.id);
        self.canary = 0xDEAD_DEAD_DEAD_DEAD;
        if self.id != 0 {
            ctx::drop_callback();
        }
    }
}
impl Drop for TVal {
    fn drop(&mut self) {
        if !self.intact() {
            ctx::note_error(format!("drop: value canary corrupted (id={})", self.id));
        }
        ctx::note_drop(self.id);
        self.canary = 0xDEAD_DEAD_DEAD_DEAD;
        ctx::drop_callback();
    }
}

impl Debug for TKey {
    fn fmt(&self, f: &mut std::fmt::Formatter<'_>) -> std::fmt::Result {
        write!(f, "{}", self.kv)
    }
}
impl Debug for TVal {
    fn fmt(&self, f: &mut std::fmt::Formatter<'_>) -> std::fmt::Result {
        write!(f, "{}", self.payload)
    }
}
