//! gsim - deterministic simulation of griddle collections with fault injection.
//!
//!   gsim run --prop C01 --seed 1 --from 0 --count 1000 [--stride 16 --offset 3] [--tier quick] --out FILE
//!   gsim replay FILE            re-execute a replay file; prints VIOLATION or OK
//!   gsim minimize FILE OUT      shrink a failing replay file
//!   gsim show --prop C01 --seed 1 --run 17     print the generated schedule

mod alloc;
mod c07;
mod c10;
mod c16;
mod check;
mod ctx;
mod elems;
mod exec;
mod exec_handles;
mod exec_lazy;
mod exec_map;
mod exec_set;
mod gen;
mod hasher;
mod minimize;
mod ops;
mod props;
mod rng;
mod run;
mod variants;
mod world;

use ops::*;
use props::Prop;
use rng::{mix, Rng};
use serde::{Deserialize, Serialize};
use std::collections::{BTreeMap, BTreeSet};
use std::sync::atomic::{AtomicU64, Ordering};

#[global_allocator]
static GLOBAL: alloc::SimAlloc = alloc::SimAlloc;

static CURRENT_RUN: AtomicU64 = AtomicU64::new(u64::MAX);
pub static THOROUGH: std::sync::atomic::AtomicBool = std::sync::atomic::AtomicBool::new(false);

#[derive(Clone, Debug, Serialize, Deserialize)]
pub struct ReplayFile {
    pub property: String,
    pub class: String,
    pub detail: String,
    pub seed: u64,
    pub run: u64,
    pub tier: String,
    pub flavour: String,
    pub spec: RunSpec,
}

fn write_num(fd: i32, mut n: u64) {
    let mut buf = [0u8; 24];
    let mut i = buf.len();
    if n == 0 {
        i -= 1;
        buf[i] = b'0';
    }
    while n > 0 {
        i -= 1;
        buf[i] = b'0' + (n % 10) as u8;
        n /= 10;
    }
    unsafe {
        libc::write(fd, buf[i..].as_ptr() as *const _, buf.len() - i);
    }
}

extern "C" fn on_fatal_signal(sig: i32) {
    // async-signal-safe: report which run was executing, then die with the default action
    let what: &[u8] = match sig {
        libc::SIGALRM | libc::SIGPROF => b"\nGSIM-HANG run=",
        _ => b"\nGSIM-ABORT run=",
    };
    unsafe {
        libc::write(1, what.as_ptr() as *const _, what.len());
    }
    write_num(1, CURRENT_RUN.load(Ordering::Relaxed));
    unsafe {
        let s = b" signal=";
        libc::write(1, s.as_ptr() as *const _, s.len());
    }
    write_num(1, sig as u64);
    unsafe {
        libc::write(1, b"\n".as_ptr() as *const _, 1);
        libc::signal(sig, libc::SIG_DFL);
        if sig == libc::SIGALRM || sig == libc::SIGPROF {
            libc::_exit(3);
        }
        libc::raise(sig);
    }
}

fn install_handlers() {
    #[cfg(not(miri))]
    unsafe {
        // SA_ONSTACK: std gives the main thread an alternate signal stack, so that a stack
        // overflow (e.g. unbounded recursion in a mutated insert) can still be reported
        for &s in &[libc::SIGABRT, libc::SIGSEGV, libc::SIGBUS, libc::SIGILL, libc::SIGFPE, libc::SIGALRM, libc::SIGPROF] {
            let mut sa: libc::sigaction = std::mem::zeroed();
            sa.sa_sigaction = on_fatal_signal as usize;
            sa.sa_flags = libc::SA_ONSTACK;
            libc::sigemptyset(&mut sa.sa_mask);
            libc::sigaction(s, &sa, std::ptr::null_mut());
        }
    }
    std::panic::set_hook(Box::new(|_| {}));
}

/// The hang watchdog counts CPU time of this process (ITIMER_PROF), not wall-clock time, so a
/// loaded machine cannot turn a slow run into a "hang": only a run that really burns `secs`
/// seconds of CPU is reported.
#[cfg(not(miri))]
pub fn watchdog(secs: u32) {
    unsafe {
        let tv = libc::itimerval {
            it_interval: libc::timeval { tv_sec: 0, tv_usec: 0 },
            it_value: libc::timeval { tv_sec: secs as libc::time_t, tv_usec: 0 },
        };
        libc::setitimer(libc::ITIMER_PROF, &tv, std::ptr::null_mut());
    }
}
#[cfg(miri)]
pub fn watchdog(_secs: u32) {}

pub fn run_seed(seed: u64, prop: Prop, run: u64) -> u64 {
    mix(&[seed, prop as u64, run])
}

pub fn generate(prop: Prop, seed: u64, run: u64, thorough: bool) -> RunSpec {
    let mut rng = Rng::new(run_seed(seed, prop, run));
    if prop == Prop::C14 {
        return gen::generate_c14(&mut rng);
    }
    if prop == Prop::C16 && run % 1024 == 1023 {
        return gen::generate_serde_big(&mut rng);
    }
    if thorough && matches!(prop, Prop::C02 | Prop::C03) && run % 4096 == 4095 {
        return gen::generate_growth(&mut rng);
    }
    let mut prof = props::profile(prop, thorough);
    // one run in 512 (quick) / 32 (thorough) of C06/C08/C09/C12 samples a state and enumerate a family of
    // continuations from it (see variants.rs)
    let every = if thorough { 32 } else { 512 };
    let enum_mode = match prop {
        Prop::C12 if run % every == every - 1 => Some("enum-chains"),
        Prop::C06 | Prop::C08 | Prop::C09 if run % every == every - 1 => Some("enum-prefixes"),
        _ => None,
    };
    if enum_mode.is_some() {
        prof.max_len = 30;
        prof.long_runs = false;
        prof.max_universe = 256;
        prof.maps = 1;
        prof.sets = if prop == Prop::C12 { 0 } else { 1 };
        if thorough {
            prof.max_universe = 1024;
        }
    }
    if cfg!(miri) {
        // the interpreter is ~10^4 times slower: short histories on small universes
        prof.max_len = 16;
        prof.max_universe = 32;
        prof.long_runs = false;
    }
    let mut spec = gen::generate(&mut rng, &prof);
    if let Some(m) = enum_mode {
        // the sampled state must stay small enough to enumerate every prefix: every
        // continuation is applied to a copy of the state rebuilt from the history, so a history
        // with a long prelude (tombstone churn over a big universe) stays an ordinary run
        if spec.ops.len() <= 160 {
            spec.mode = Some(m.to_string());
        }
    }
    if prop == Prop::C10 {
        spec.mode = Some("enum-args".to_string());
    }
    if prop == Prop::C05 && rng.chance(1, 3) && !spec.ops.is_empty() {
        // memory safety must also hold after caught panics in user code: one or two injected
        // panics per run; the run adopts what the collections hold and goes on (ASan, canaries
        // and the cursor invariant keep watching)
        for _ in 0..rng.range(1, 2) {
            let at = rng.below(spec.ops.len() as u64) as usize;
            if !spec.faults.iter().any(|f| f.at == at) {
                spec.faults.push(Fault { at, nth: 1 + rng.below(9), site: None });
            }
        }
    }
    if prop == Prop::C05 && spec.mode.is_none() {
        // an interrupted clone_from and continued use of its destination is where defect D8
        // lived: half of the runs that contain a clone_from get a panic inside it (decided by
        // a generator of its own, so that everything else about the run stays as it was)
        let mut r2 = Rng::new(run_seed(seed, prop, run) ^ 0xC10E_F20A_D8D8_D8D8);
        let clones: Vec<usize> = spec.ops.iter().enumerate().filter(|(_, o)| matches!(o.kind(), "clone_from" | "set_clone_from")).map(|(i, _)| i).collect();
        if !clones.is_empty() && r2.chance(1, 2) {
            let at = *r2.pick(&clones);
            if !spec.faults.iter().any(|f| f.at == at) {
                spec.faults.push(Fault { at, nth: 1 + r2.below(12), site: None });
            }
        }
    }
    let zst = spec.cfg.elem.is_zst();
    let zst_drop = spec.cfg.elem == elems::ElemClass::ZstDrop;
    if prop == Prop::C05 && (!zst || zst_drop) && spec.mode.is_none() && rng.chance(if zst_drop { 3 } else { 1 }, 8) {
        // logic-error keys: inconsistent Hash / Eq; only memory safety is judged
        spec.cfg.chaos = Some(rng.next_u64());
        spec.faults.clear();
    }
    if prop == Prop::C05 && spec.cfg.chaos.is_none() && spec.cfg.elem.has_drop() && rng.chance(if zst { 3 } else { 1 }, 4) && !spec.ops.is_empty() {
        // a destructor of a stored object panics: the nth one run inside an operation that
        // drops elements in place (retain, drain_filter, clear, early-dropped iterators,
        // clone_from's destination), or inside any operation
        let dropping: Vec<usize> = spec
            .ops
            .iter()
            .enumerate()
            .filter(|(_, o)| matches!(o.kind(), "retain" | "set_retain" | "drain_filter" | "set_drain_filter" | "clear" | "set_clear" | "drain" | "set_drain" | "into_iter" | "set_into_iter" | "clone_from" | "set_clone_from"))
            .map(|(i, _)| i)
            .collect();
        // (a zero-sized collection holds one element: its states last one call, so several
        // operations of such a run get a fault)
        for _ in 0..if zst { rng.range(1, 5) } else { 1 } {
            let at = if !dropping.is_empty() && rng.chance(3, 4) { *rng.pick(&dropping) } else { rng.below(spec.ops.len() as u64) as usize };
            if !spec.faults.iter().any(|f| f.at == at) {
                spec.faults.push(Fault { at, nth: 1 + rng.below(if zst { 2 } else { 3 }), site: Some(ctx::Site::Drop) });
            }
        }
    }
    if prop == Prop::C08 && spec.mode.is_none() && rng.chance(1, 3) && !spec.ops.is_empty() {
        let at = rng.below(spec.ops.len() as u64) as usize;
        spec.faults.push(Fault { at, nth: 1 + rng.below(9), site: None });
    }
    if prop == Prop::C17 && rng.chance(1, 2) && !spec.ops.is_empty() {
        // fault schedule: one or two panics at early callbacks of random steps
        for _ in 0..rng.range(1, 2) {
            let at = rng.below(spec.ops.len() as u64) as usize;
            let nth = 1 + rng.below(6);
            if !spec.faults.iter().any(|f| f.at == at) {
                spec.faults.push(Fault { at, nth, site: None });
            }
        }
    }
    spec
}

fn arg<'a>(args: &'a [String], name: &str) -> Option<&'a str> {
    args.iter().position(|a| a == name).and_then(|i| args.get(i + 1)).map(|s| s.as_str())
}

fn arg_u64(args: &[String], name: &str, default: u64) -> u64 {
    arg(args, name).map(|s| s.parse().expect("numeric argument")).unwrap_or(default)
}

/// Wall-clock second (since the epoch) after which enumerating drivers stop starting new
/// continuations: the batch cap must also hold inside one long enumeration. 0 = none.
pub static DEADLINE_UNIX: std::sync::atomic::AtomicU64 = std::sync::atomic::AtomicU64::new(0);

pub fn past_deadline() -> bool {
    let d = DEADLINE_UNIX.load(Ordering::Relaxed);
    (d != 0 && std::time::SystemTime::now().duration_since(std::time::UNIX_EPOCH).map_or(false, |t| t.as_secs() >= d)) || over_run_budget()
}

/// CPU time (ms) this process had used when the current run began, and the CPU budget (ms)
/// an enumerating run may spend on starting new continuations. The watchdog (which reports a
/// *hang*) is set well above that budget: an enumeration that is merely large stops early and
/// is never mistaken for a hang. 0 = no budget (replays).
pub static RUN_CPU_START_MS: AtomicU64 = AtomicU64::new(0);
pub static RUN_CPU_BUDGET_MS: AtomicU64 = AtomicU64::new(0);

#[cfg(not(miri))]
pub fn cpu_ms() -> u64 {
    let mut ts = libc::timespec { tv_sec: 0, tv_nsec: 0 };
    unsafe {
        libc::clock_gettime(libc::CLOCK_PROCESS_CPUTIME_ID, &mut ts);
    }
    ts.tv_sec as u64 * 1000 + ts.tv_nsec as u64 / 1_000_000
}
#[cfg(miri)]
pub fn cpu_ms() -> u64 {
    0
}

pub fn over_run_budget() -> bool {
    let b = RUN_CPU_BUDGET_MS.load(Ordering::Relaxed);
    b != 0 && cpu_ms().saturating_sub(RUN_CPU_START_MS.load(Ordering::Relaxed)) >= b
}

fn cmd_run(args: &[String]) -> i32 {
    let prop = Prop::parse(arg(args, "--prop").expect("--prop")).expect("property id");
    let seed = arg_u64(args, "--seed", 1);
    let from = arg_u64(args, "--from", 0);
    let count = arg_u64(args, "--count", 1000);
    let stride = arg_u64(args, "--stride", 1);
    let offset = arg_u64(args, "--offset", 0);
    let max_secs = arg_u64(args, "--max-secs", 3600);
    let thorough = arg(args, "--tier") == Some("thorough");
    THOROUGH.store(thorough, Ordering::Relaxed);
    let out_path = arg(args, "--out").map(|s| s.to_string());
    let hang_secs = arg_u64(args, "--hang-secs", 20) as u32;
    let t0 = std::time::Instant::now();

    let mut runs = 0u64;
    let mut steps = 0u64;
    let mut nontrivial_runs = 0u64;
    let mut states: BTreeSet<u64> = BTreeSet::new();
    let mut probes: BTreeMap<&'static str, u64> = BTreeMap::new();
    let mut op_kinds: BTreeMap<&'static str, u64> = BTreeMap::new();
    let mut foreign: BTreeMap<&'static str, u64> = BTreeMap::new();
    let mut faults: BTreeMap<String, u64> = BTreeMap::new();
    let mut violations: Vec<serde_json::Value> = Vec::new();
    let mut soft_violations: Vec<serde_json::Value> = Vec::new();
    let mut samples: Vec<serde_json::Value> = Vec::new();
    let mut elem_runs: BTreeMap<String, u64> = BTreeMap::new();
    let mut hasher_runs: BTreeMap<String, u64> = BTreeMap::new();
    let mut truncated = false;
    let want_hash = prop == Prop::C17;
    let mut hash_file = arg(args, "--hash-out").map(|p| std::fs::OpenOptions::new().create(true).append(true).open(p).expect("open hash file"));

    // the index of the run being executed is also kept in a side file, for the case that the
    // process dies in a way no handler can report
    let progress_fd: i32 = match out_path.as_ref() {
        Some(p) => {
            let c = std::ffi::CString::new(format!("{}.progress", p)).unwrap();
            unsafe { libc::open(c.as_ptr(), libc::O_CREAT | libc::O_WRONLY | libc::O_TRUNC, 0o644) }
        }
        None => -1,
    };
    if let Ok(t) = std::time::SystemTime::now().duration_since(std::time::UNIX_EPOCH) {
        DEADLINE_UNIX.store(t.as_secs() + max_secs + 30, Ordering::Relaxed);
    }
    let mut i = from + offset;
    while i < from + count {
        if t0.elapsed().as_secs() >= max_secs {
            truncated = true;
            break;
        }
        CURRENT_RUN.store(i, Ordering::Relaxed);
        if progress_fd >= 0 {
            let b = i.to_le_bytes();
            unsafe {
                libc::pwrite(progress_fd, b.as_ptr() as *const _, 8, 0);
            }
        }
        let spec = generate(prop, seed, i, thorough);
        // the watchdog allows for the size of the schedule (giant growth runs, enumerations)
        {
            // CPU-seconds allowed for this run, scaled to the size of the schedule; the
            // crash-point and argument enumerations re-execute their prefix many times
            let mut extra = (spec.ops.len() / 400) as u32 + if spec.mode.is_some() { 100 } else { 0 };
            if matches!(prop, Prop::C07 | Prop::C10) {
                extra += 100 + (spec.ops.len() as u32) / 2;
            }
            watchdog(hang_secs + extra);
            // enumerations stop starting new continuations at a third of that
            RUN_CPU_START_MS.store(cpu_ms(), Ordering::Relaxed);
            RUN_CPU_BUDGET_MS.store(((hang_secs + extra) as u64) * 1000 / 3, Ordering::Relaxed);
        }
        let o = run_for_prop(prop, &spec, want_hash || hash_file.is_some());
        if want_hash || hash_file.is_some() {
            let mut h = 0xcbf2_9ce4_8422_2325u64;
            for l in &o.transcript {
                for b in l.bytes() {
                    h = (h ^ b as u64).wrapping_mul(0x100_0000_01b3);
                }
                h = (h ^ 0xff).wrapping_mul(0x100_0000_01b3);
            }
            if !want_hash {
                // determinism self-test: everything the run produced goes into the hash
                let mut mixin = |x: u64| h = (h ^ x).wrapping_mul(0x100_0000_01b3);
                mixin(o.steps as u64);
                for s in &o.states {
                    mixin(*s);
                }
                for p in &o.probes {
                    mixin(run::kind_hash(p));
                }
                for p in &o.foreign {
                    mixin(run::kind_hash(p));
                }
                for (k, v) in &o.faults {
                    mixin(run::kind_hash(k) ^ *v);
                }
                if let Some(a) = &o.violation {
                    mixin(run::kind_hash(a.class) ^ a.op_index as u64);
                }
            }
            if let Some(f) = hash_file.as_mut() {
                use std::io::Write;
                let _ = writeln!(f, "{} {:016x} {}", i, h, o.transcript.len());
            }
        }
        runs += 1;
        steps += o.steps as u64;
        if o.nontrivial {
            nontrivial_runs += 1;
            for s in &o.states {
                states.insert(*s);
            }
        }
        for p in &o.probes {
            *probes.entry(p).or_insert(0) += 1;
        }
        for k in &o.op_kinds {
            *op_kinds.entry(k).or_insert(0) += 1;
        }
        for f in &o.foreign {
            *foreign.entry(f).or_insert(0) += 1;
        }
        for (k, v) in &o.faults {
            *faults.entry(k.clone()).or_insert(0) += v;
        }
        *elem_runs.entry(format!("{:?}", spec.cfg.elem)).or_insert(0) += 1;
        for h in spec.cfg.map_hashers.iter().chain(spec.cfg.set_hashers.iter()) {
            *hasher_runs.entry(format!("{:?}", h.mode)).or_insert(0) += 1;
        }
        if samples.len() < 2 && o.nontrivial && spec.ops.len() <= 40 {
            samples.push(serde_json::json!({"run": i, "spec": spec}));
        }
        if let Some(a) = o.soft.as_ref() {
            if soft_violations.len() < 2 {
                soft_violations.push(serde_json::json!({
                    "run": i, "class": a.class, "family": format!("{:?}", a.family), "op_index": a.op_index,
                    "op_kind": a.op_kind, "detail": a.detail, "elem": format!("{:?}", spec.cfg.elem), "fault": serde_json::Value::Null,
                }));
            }
        }
        if let Some(a) = o.violation {
            violations.push(serde_json::json!({
                "run": i, "class": a.class, "family": format!("{:?}", a.family), "op_index": a.op_index,
                "op_kind": a.op_kind, "detail": a.detail, "elem": format!("{:?}", spec.cfg.elem),
                "fault": o.fault.map(|f| vec![f.at as u64, f.nth]),
            }));
            if violations.len() >= 8 {
                break;
            }
        }
        i += stride;
    }
    watchdog(0);
    CURRENT_RUN.store(u64::MAX, Ordering::Relaxed);
    let result = serde_json::json!({
        "property": prop.name(), "seed": seed, "from": from, "count": count, "stride": stride, "offset": offset,
        "runs": runs, "steps": steps, "nontrivial_runs": nontrivial_runs,
        "states": states.iter().collect::<Vec<_>>(),
        "probes": probes, "op_kinds": op_kinds, "foreign": foreign, "faults": faults,
        "elem_runs": elem_runs, "hasher_runs": hasher_runs, "soft_violations": soft_violations,
        "violations": violations, "samples": samples, "truncated": truncated,
        "wall_s": t0.elapsed().as_secs_f64(),
        "fuse_fired": ctx::with(|c| c.total_fuse_fired.to_vec()),
    });
    let text = serde_json::to_string(&result).unwrap();
    match out_path {
        Some(p) => std::fs::write(p, text).expect("write result"),
        None => println!("{}", text),
    }
    0
}

fn replay_outcome(rf: &ReplayFile) -> run::RunOutcome {
    let prop = Prop::parse(&rf.property).expect("property id in replay file");
    run_for_prop(prop, &rf.spec, true)
}

fn cmd_replay(args: &[String]) -> i32 {
    let path = &args[0];
    let text = std::fs::read_to_string(path).expect("read replay file");
    let rf: ReplayFile = serde_json::from_str(&text).expect("parse replay file");
    let verbose = args.iter().any(|a| a == "--transcript");
    THOROUGH.store(rf.tier == "thorough", Ordering::Relaxed);
    CURRENT_RUN.store(rf.run, Ordering::Relaxed);
    watchdog(if matches!(rf.property.as_str(), "C07" | "C10") || rf.spec.mode.is_some() { 300 } else { 30 + (rf.spec.ops.len() / 400) as u32 });
    let o = replay_outcome(&rf);
    watchdog(0);
    if verbose {
        for l in &o.transcript {
            println!("  {}", l);
        }
    }
    if args.iter().any(|a| a == "--hash") {
        let mut h = 0xcbf2_9ce4_8422_2325u64;
        for l in &o.transcript {
            for b in l.bytes() {
                h = (h ^ b as u64).wrapping_mul(0x100_0000_01b3);
            }
            h = (h ^ 0xff).wrapping_mul(0x100_0000_01b3);
        }
        println!("HASH {:016x} {}", h, o.transcript.len());
    }
    match o.violation.or(o.soft) {
        Some(a) => {
            println!("REPRODUCED property={} class={} op={}#{} detail={}", rf.property, a.class, a.op_kind, a.op_index, a.detail);
            1
        }
        None => {
            println!("NOT-REPRODUCED property={}", rf.property);
            0
        }
    }
}

/// Run a schedule the way property `prop`'s check runs it.
pub fn run_for_prop(prop: Prop, spec: &RunSpec, transcript: bool) -> run::RunOutcome {
    run::run_spec(prop, spec, transcript)
}

/// Does `spec` fail in a child process with violation class `class`? A child that dies of a
/// signal or hangs counts as class `abort` / `hang`.
pub fn subprocess_fails(prop: Prop, spec: &RunSpec, class: &str) -> bool {
    let exe = std::env::current_exe().expect("current_exe");
    let dir = std::env::temp_dir();
    let path = dir.join(format!("gsim-cand-{}.json", std::process::id()));
    let rf = ReplayFile { property: prop.name(), class: class.to_string(), detail: String::new(), seed: 0, run: 0, tier: String::new(), flavour: String::new(), spec: spec.clone() };
    std::fs::write(&path, serde_json::to_string(&rf).unwrap()).expect("write candidate");
    let out = std::process::Command::new(exe).arg("replay").arg(&path).output().expect("spawn child");
    let _ = std::fs::remove_file(&path);
    let text = String::from_utf8_lossy(&out.stdout);
    if text.contains("GSIM-HANG") {
        return class == "hang";
    }
    if text.contains("GSIM-ABORT") || out.status.code().is_none() {
        return class == "abort";
    }
    text.lines().any(|l| l.starts_with("REPRODUCED") && l.contains(&format!("class={} ", class)))
}

fn cmd_minimize(args: &[String]) -> i32 {
    let text = std::fs::read_to_string(&args[0]).expect("read replay file");
    let mut rf: ReplayFile = serde_json::from_str(&text).expect("parse replay file");
    let prop = Prop::parse(&rf.property).expect("property id");
    THOROUGH.store(rf.tier == "thorough", Ordering::Relaxed);
    let subprocess = rf.class == "abort" || rf.class == "hang" || args.iter().any(|a| a == "--subprocess");
    let mut mz = minimize::Minimizer { prop, class: rf.class.clone(), tests: 0, subprocess };
    if !mz.fails(&rf.spec) {
        eprintln!("minimize: the schedule does not fail with class {} in this binary", rf.class);
        return 2;
    }
    let before = rf.spec.ops.len();
    let small = mz.minimize(&rf.spec);
    // final detail from an in-process run when possible
    if !subprocess {
        if let Some(a) = { let o2 = run_for_prop(prop, &small, false); o2.violation.or(o2.soft) } {
            rf.detail = format!("{}#{}: {}", a.op_kind, a.op_index, a.detail);
        }
    }
    eprintln!("minimize: {} -> {} operations in {} candidate runs", before, small.ops.len(), mz.tests);
    rf.spec = small;
    std::fs::write(&args[1], serde_json::to_string_pretty(&rf).unwrap()).expect("write minimized");
    0
}

fn cmd_show(args: &[String]) -> i32 {
    let prop = Prop::parse(arg(args, "--prop").expect("--prop")).expect("property id");
    let seed = arg_u64(args, "--seed", 1);
    let run = arg_u64(args, "--run", 0);
    let thorough = arg(args, "--tier") == Some("thorough");
    let mut spec = generate(prop, seed, run, thorough);
    if let Some(f) = arg(args, "--fault") {
        let mut it = f.split(':');
        let at: usize = it.next().unwrap().parse().expect("fault step");
        let nth: u64 = it.next().unwrap().parse().expect("fault ordinal");
        spec.faults.push(Fault { at, nth, site: None });
    }
    let rf = ReplayFile {
        property: prop.name(),
        class: arg(args, "--class").unwrap_or("").to_string(),
        detail: String::new(),
        seed,
        run,
        tier: if thorough { "thorough".into() } else { "quick".into() },
        flavour: arg(args, "--flavour").unwrap_or("").to_string(),
        spec,
    };
    println!("{}", serde_json::to_string(&rf).unwrap());
    0
}

fn main() {
    install_handlers();
    let args: Vec<String> = std::env::args().skip(1).collect();
    if args.is_empty() {
        eprintln!("usage: gsim run|replay|minimize|show ...");
        std::process::exit(2);
    }
    let code = match args[0].as_str() {
        "run" => cmd_run(&args[1..]),
        "replay" => cmd_replay(&args[1..]),
        "show" => cmd_show(&args[1..]),
        "minimize" => cmd_minimize(&args[1..]),
        _ => {
            eprintln!("unknown command {}", args[0]);
            2
        }
    };
    std::process::exit(code);
}
