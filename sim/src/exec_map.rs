//! Map operations: dispatch, reference-model updates and result oracles.

use crate::alloc;
use crate::ctx::{self, ObjState, Site};
use crate::elems::{ElemClass, KeyT, ValT, DEFAULT_PAYLOAD};
use crate::exec::*;
use crate::hasher::SimHasher;
use crate::ops::*;
use crate::world::*;
use griddle::hash_map::{Entry, RawEntryMut, VerifLoc, VerifState};
use std::any::Any;
use std::collections::{BTreeMap, BTreeSet};
use std::hash::BuildHasher;

pub(crate) fn in_old<K: KeyT, V: ValT>(slot: &MapSlot<K, V>, kv: u32) -> bool {
    let probe = K::probe(kv);
    matches!(slot.m.verif_locate(&probe), VerifLoc::Old { .. })
}

fn pair_str<K: KeyT, V: ValT>(k: &K, v: &V) -> String {
    format!("({},{})", k.kv(), v.payload())
}

/// Split-borrow two distinct slots.
pub(crate) fn two_mut<T>(v: &mut [T], a: usize, b: usize) -> (&mut T, &mut T) {
    assert!(a != b);
    if a < b {
        let (x, y) = v.split_at_mut(b);
        (&mut x[a], &mut y[0])
    } else {
        let (x, y) = v.split_at_mut(a);
        (&mut y[0], &mut x[b])
    }
}

impl<K: KeyT, V: ValT> World<K, V> {
    pub(crate) fn dispatch(&mut self, acc: &mut Acc, op: &Op) {
        match op {
            Op::Insert { m, k, p } => {
                let mi = *m as usize;
                let kv = self.maps[mi].resolve_key(k);
                let before = self.maps[mi].m.verif_state();
                let present = self.maps[mi].model.get(&kv).copied();
                // overwriting an element that already sits in the main table is an in-place
                // update (C02: hashes only the key, moves nothing); overwriting one in the old
                // table, or adding a key, may move up to R elements
                let overwrite_in_main = present.is_some() && !in_old(&self.maps[mi], kv);
                let p = &V::norm(*p);
                let key = K::make(kv);
                let val = V::make(*p);
                let (kid, vid) = (key.oid(), val.oid());
                let slot = &mut self.maps[mi];
                let co = call(|| sut(|| slot.m.insert(key, val)));
                let stats = (co.hashes, co.alloc.allocs);
                match co.result {
                    Ok(ret) => {
                        acc.out.res = check_opt_val(acc, "insert", ret.as_ref(), present.as_ref());
                        drop(ret);
                        let e = match present {
                            Some(e) => MEntry { kid: e.kid, vid, p: *p },
                            None => MEntry { kid, vid, p: *p },
                        };
                        slot.model.insert(kv, e);
                        if present.is_some() && before.split {
                            acc.probe("overwrite-while-split");
                        }
                        let cost = if overwrite_in_main { Cost::Constant } else { Cost::KeyAdding };
                        self.post_map(acc, mi, before, stats, cost, present.is_none(), 0, false);
                    }
                    Err(pn) => self.handle_panic(acc, pn, &[]),
                }
            }
            Op::Get { m, k } | Op::ContainsKey { m, k } | Op::GetKeyValue { m, k } | Op::Index { m, k } => {
                let mi = *m as usize;
                let kv = self.maps[mi].resolve_key(k);
                let before = self.maps[mi].m.verif_state();
                let present = self.maps[mi].model.get(&kv).copied();
                let probe = K::probe(kv);
                let slot = &mut self.maps[mi];
                let mut wrong: Option<String> = None;
                let co = call(|| match op {
                    Op::Get { .. } => {
                        let r = sut(|| slot.m.get(&probe));
                        match (r, present.as_ref()) {
                            (Some(v), Some(e)) => {
                                v.check("get");
                                if v.payload() != e.p || (v.oid() != 0 && v.oid() != e.vid) {
                                    wrong = Some(format!("get({}): payload={} id={} expected payload={} id={}", kv, v.payload(), v.oid(), e.p, e.vid));
                                }
                                format!("Some({})", v.payload())
                            }
                            (None, None) => "None".to_string(),
                            (Some(v), None) => {
                                wrong = Some(format!("get({}): Some({}) expected None", kv, v.payload()));
                                "Some".to_string()
                            }
                            (None, Some(e)) => {
                                wrong = Some(format!("get({}): None expected Some({})", kv, e.p));
                                "None".to_string()
                            }
                        }
                    }
                    Op::ContainsKey { .. } => {
                        let r = sut(|| slot.m.contains_key(&probe));
                        if r != present.is_some() {
                            wrong = Some(format!("contains_key({}) = {} expected {}", kv, r, present.is_some()));
                        }
                        format!("{}", r)
                    }
                    Op::GetKeyValue { .. } => {
                        let r = sut(|| slot.m.get_key_value(&probe));
                        match (r, present.as_ref()) {
                            (Some((kk, v)), Some(e)) => {
                                kk.check("get_key_value");
                                v.check("get_key_value");
                                if kk.kv() != kv || v.payload() != e.p || (v.oid() != 0 && (v.oid() != e.vid || kk.oid() != e.kid)) {
                                    wrong = Some(format!("get_key_value({}): ({} id {}, {} id {}) expected ({} id {}, {} id {})", kv, kk.kv(), kk.oid(), v.payload(), v.oid(), kv, e.kid, e.p, e.vid));
                                }
                                format!("Some{}", pair_str(kk, v))
                            }
                            (None, None) => "None".to_string(),
                            (a, b) => {
                                wrong = Some(format!("get_key_value({}): is_some={} expected is_some={}", kv, a.is_some(), b.is_some()));
                                "?".to_string()
                            }
                        }
                    }
                    _ => {
                        let v = sut(|| &slot.m[&probe]);
                        v.check("index");
                        match present.as_ref() {
                            Some(e) if v.payload() == e.p && (v.oid() == 0 || v.oid() == e.vid) => {}
                            Some(e) => wrong = Some(format!("index({}): payload={} expected {}", kv, v.payload(), e.p)),
                            None => wrong = Some(format!("index({}) returned {} for an absent key", kv, v.payload())),
                        }
                        format!("{}", v.payload())
                    }
                });
                let stats = (co.hashes, co.alloc.allocs);
                match co.result {
                    Ok(s) => {
                        acc.out.res = s;
                        if let Some(w) = wrong {
                            acc.wrong(w);
                        }
                        self.post_map(acc, mi, before, stats, Cost::Constant, false, 0, false);
                    }
                    Err(pn) => {
                        let documented: &[&str] = if matches!(op, Op::Index { .. }) && present.is_none() { &["index"] } else { &[] };
                        self.handle_panic(acc, pn, documented);
                        if !acc.out.fatal && acc.out.injected.is_none() {
                            // the panic machinery allocates; only the hash count is meaningful here
                            self.post_map(acc, mi, before, (stats.0, 0), Cost::Constant, false, 0, false);
                        }
                    }
                }
            }
            Op::GetMut { m, k, p } | Op::GetKeyValueMut { m, k, p } => {
                let mi = *m as usize;
                let kv = self.maps[mi].resolve_key(k);
                let before = self.maps[mi].m.verif_state();
                let present = self.maps[mi].model.get(&kv).copied();
                let probe = K::probe(kv);
                let slot = &mut self.maps[mi];
                let with_key = matches!(op, Op::GetKeyValueMut { .. });
                let p = &V::norm(*p);
                let mut wrong: Option<String> = None;
                let co = call(|| {
                    let r: Option<(Option<&K>, &mut V)> = if with_key {
                        sut(|| slot.m.get_key_value_mut(&probe)).map(|(a, b)| (Some(a), b))
                    } else {
                        sut(|| slot.m.get_mut(&probe)).map(|b| (None, b))
                    };
                    match (r, present.as_ref()) {
                        (Some((kk, v)), Some(e)) => {
                            v.check("get_mut");
                            if let Some(kk) = kk {
                                kk.check("get_key_value_mut");
                                if kk.kv() != kv || (kk.oid() != 0 && kk.oid() != e.kid) {
                                    wrong = Some(format!("get_key_value_mut({}): key kv={} id={} expected id={}", kv, kk.kv(), kk.oid(), e.kid));
                                }
                            }
                            if v.payload() != e.p || (v.oid() != 0 && v.oid() != e.vid) {
                                wrong = Some(format!("get_mut({}): payload={} id={} expected payload={} id={}", kv, v.payload(), v.oid(), e.p, e.vid));
                            }
                            let old = v.payload();
                            v.set_payload(*p);
                            format!("Some({})", old)
                        }
                        (None, None) => "None".to_string(),
                        (a, b) => {
                            wrong = Some(format!("get_mut({}): is_some={} expected is_some={}", kv, a.is_some(), b.is_some()));
                            "?".to_string()
                        }
                    }
                });
                let stats = (co.hashes, co.alloc.allocs);
                match co.result {
                    Ok(s) => {
                        acc.out.res = s;
                        if let Some(w) = wrong {
                            acc.wrong(w);
                        }
                        if let Some(e) = slot.model.get_mut(&kv) {
                            e.p = *p;
                        }
                        self.post_map(acc, mi, before, stats, Cost::Constant, false, 0, false);
                    }
                    Err(pn) => self.handle_panic(acc, pn, &[]),
                }
            }
            Op::Remove { m, k } | Op::RemoveEntry { m, k } => {
                let mi = *m as usize;
                let kv = self.maps[mi].resolve_key(k);
                let before = self.maps[mi].m.verif_state();
                let present = self.maps[mi].model.get(&kv).copied();
                let was_old = present.is_some() && in_old(&self.maps[mi], kv);
                let probe = K::probe(kv);
                let slot = &mut self.maps[mi];
                let entry = matches!(op, Op::RemoveEntry { .. });
                let co = call(|| {
                    if entry {
                        sut(|| slot.m.remove_entry(&probe)).map(|(a, b)| (Some(a), b))
                    } else {
                        sut(|| slot.m.remove(&probe)).map(|b| (None, b))
                    }
                });
                let stats = (co.hashes, co.alloc.allocs);
                match co.result {
                    Ok(ret) => {
                        match (&ret, present.as_ref()) {
                            (Some((kk, v)), Some(e)) => {
                                check_val(acc, "remove", v, e);
                                if let Some(kk) = kk {
                                    check_key(acc, "remove_entry", kk, kv, e.kid);
                                }
                                acc.out.res = format!("Some({})", v.payload());
                            }
                            (None, None) => acc.out.res = "None".to_string(),
                            (a, b) => acc.wrong(format!("remove({}): is_some={} expected is_some={}", kv, a.is_some(), b.is_some())),
                        }
                        drop(ret);
                        slot.model.remove(&kv);
                        if was_old {
                            acc.probe("removed-from-old-table");
                        }
                        self.post_map(acc, mi, before, stats, Cost::Constant, false, was_old as usize, false);
                    }
                    Err(pn) => self.handle_panic(acc, pn, &[]),
                }
            }
            Op::Clear { m } => {
                let mi = *m as usize;
                let before = self.maps[mi].m.verif_state();
                let slot = &mut self.maps[mi];
                let co = call(|| sut(|| slot.m.clear()));
                let stats = (co.hashes, co.alloc.allocs);
                match co.result {
                    Ok(()) => {
                        acc.out.res = "()".to_string();
                        slot.model.clear();
                        if slot.m.verif_state().split {
                            acc.internal("progress-empty-old-kept", "clear left an old table allocated".to_string());
                        }
                        if before.split {
                            acc.probe("clear-while-split");
                        }
                        self.post_map(acc, mi, before, stats, Cost::Exempt, false, 0, false);
                    }
                    Err(pn) => self.handle_panic(acc, pn, &[]),
                }
            }
            Op::Extend { m, items, by_ref, hint } => {
                let mi = *m as usize;
                let hint = *hint;
                let items: &Vec<(u32, u32)> = &items.iter().map(|&(k, p)| (k, V::norm(p))).collect();
                let before = self.maps[mi].m.verif_state();
                let objs: Vec<(K, V)> = items.iter().map(|&(kv, p)| (K::make(kv), V::make(p))).collect();
                let ids: Vec<(u64, u64)> = objs.iter().map(|(k, v)| (k.oid(), v.oid())).collect();
                let slot = &mut self.maps[mi];
                let co = call(|| {
                    if *by_ref && K::CLASS == ElemClass::Plain {
                        if let (Some(pm), Some(po)) = (
                            (&mut slot.m as &mut dyn Any).downcast_mut::<Map<u32, crate::elems::PVal>>(),
                            (&objs as &dyn Any).downcast_ref::<Vec<(u32, crate::elems::PVal)>>(),
                        ) {
                            sut(|| pm.extend(po.iter().map(|(a, b)| (a, b))));
                            return true;
                        }
                    }
                    if hint == 0 {
                        sut(|| slot.m.extend(objs));
                    } else {
                        sut(|| slot.m.extend(LyingIter { inner: objs.into_iter(), hint }));
                    }
                    false
                });
                let stats = (co.hashes, co.alloc.allocs);
                match co.result {
                    Ok(was_ref) => {
                        acc.out.res = format!("extended {} by_ref={}", items.len(), was_ref);
                        for (i, &(kv, p)) in items.iter().enumerate() {
                            let (kid, vid) = ids[i];
                            let e = match slot.model.get(&kv) {
                                Some(e) => MEntry { kid: e.kid, vid, p },
                                None => MEntry { kid, vid, p },
                            };
                            slot.model.insert(kv, e);
                        }
                        if before.split {
                            acc.probe("extend-while-split");
                        }
                        if hint != 0 {
                            acc.probe("extend-with-lying-size-hint");
                        }
                        self.post_map(acc, mi, before, stats, Cost::Exempt, false, 0, false);
                    }
                    Err(pn) => {
                        // a hint of usize::MAX cannot be reserved: documented capacity overflow
                        let doc: &[&str] = if hint == 3 { &["capacity-overflow"] } else { &[] };
                        self.handle_panic(acc, pn, doc);
                        if hint == 3 && !acc.out.fatal {
                            acc.probe("extend-hint-overflow-panic");
                        }
                    }
                }
            }
            Op::FromIter { m, items, hint } => {
                let mi = *m as usize;
                let hint = *hint;
                let items: &Vec<(u32, u32)> = &items.iter().map(|&(k, p)| (k, V::norm(p))).collect();
                let h = self.cfg.map_hashers[mi].clone();
                ctx::with(|c| c.default_hasher = (h.seed, h.mode as u8));
                let objs: Vec<(K, V)> = items.iter().map(|&(kv, p)| (K::make(kv), V::make(p))).collect();
                let ids: Vec<(u64, u64)> = objs.iter().map(|(k, v)| (k.oid(), v.oid())).collect();
                let co = call(|| {
                    if hint == 0 {
                        sut(|| objs.into_iter().collect::<Map<K, V>>())
                    } else {
                        sut(|| LyingIter { inner: objs.into_iter(), hint }.collect::<Map<K, V>>())
                    }
                });
                match co.result {
                    Err(pn) if hint == 3 => {
                        // a collection of usize::MAX elements cannot be pre-sized: documented panic;
                        // the slot keeps its old map
                        self.handle_panic(acc, pn, &["capacity-overflow"]);
                    }
                    Ok(newmap) => {
                        let slot = &mut self.maps[mi];
                        let old = std::mem::replace(&mut slot.m, newmap);
                        let _ = call(|| sut(|| drop(old)));
                        slot.model.clear();
                        slot.countdown = None;
                        for (i, &(kv, p)) in items.iter().enumerate() {
                            let (kid, vid) = ids[i];
                            let e = match slot.model.get(&kv) {
                                Some(e) => MEntry { kid: e.kid, vid, p },
                                None => MEntry { kid, vid, p },
                            };
                            slot.model.insert(kv, e);
                        }
                        acc.out.res = format!("collected {}", items.len());
                        let st = slot.m.verif_state();
                        slot.countdown = if st.split && st.old_len > 0 { Some(((st.old_len + st.r - 1) / st.r) as u64) } else { None };
                    }
                    Err(pn) => self.handle_panic(acc, pn, &[]),
                }
            }
            Op::IterMutWrite { m, mask, pct, p, values_mut } => {
                let mi = *m as usize;
                let p = &V::norm(*p);
                let before = self.maps[mi].m.verif_state();
                let slot = &mut self.maps[mi];
                let mut seen: Vec<u32> = Vec::new();
                let mut count = 0usize;
                let co = call(|| {
                    if *values_mut {
                        let it = sut(|| slot.m.values_mut());
                        for v in it {
                            v.check("values_mut");
                            v.set_payload(v.payload() ^ *p);
                            count += 1;
                        }
                    } else {
                        let it = sut(|| slot.m.iter_mut());
                        for (k, v) in it {
                            k.check("iter_mut");
                            v.check("iter_mut");
                            if pred_mask(*mask, *pct, k.kv()) {
                                v.set_payload(p.wrapping_add(k.kv()));
                                seen.push(k.kv());
                            }
                            count += 1;
                        }
                    }
                });
                let stats = (co.hashes, co.alloc.allocs);
                match co.result {
                    Ok(()) => {
                        if count != slot.model.len() {
                            acc.wrong(format!("iter_mut/values_mut visited {} elements, model has {}", count, slot.model.len()));
                        }
                        if *values_mut {
                            for e in slot.model.values_mut() {
                                e.p ^= *p;
                            }
                        } else {
                            for kv in seen {
                                if let Some(e) = slot.model.get_mut(&kv) {
                                    e.p = p.wrapping_add(kv);
                                }
                            }
                        }
                        acc.out.res = format!("wrote {}", count);
                        self.post_map(acc, mi, before, stats, Cost::Exempt, false, 0, false);
                    }
                    Err(pn) => self.handle_panic(acc, pn, &[]),
                }
            }
            Op::Entry { m, k, chain, p } => self.op_entry(acc, *m as usize, k, chain, *p),
            Op::RawMut { m, k, how, chain, p } => self.op_raw_mut(acc, *m as usize, k, *how, chain, *p),
            Op::RawGet { m, k, how } => {
                let mi = *m as usize;
                let kv = self.maps[mi].resolve_key(k);
                let before = self.maps[mi].m.verif_state();
                let present = self.maps[mi].model.get(&kv).copied();
                let probe = K::probe(kv);
                let slot = &mut self.maps[mi];
                let hash = slot.m.hasher().hash_kv_of(&probe);
                let mut wrong: Option<String> = None;
                let co = call(|| {
                    let r = match how {
                        Lookup::FromKey => sut(|| slot.m.raw_entry().from_key(&probe)),
                        Lookup::FromKeyHashedNocheck => sut(|| slot.m.raw_entry().from_key_hashed_nocheck(hash, &probe)),
                        Lookup::FromHash => sut(|| {
                            slot.m.raw_entry().from_hash(hash, |q| {
                                ctx::callback(Site::Eq);
                                q.kv() == kv
                            })
                        }),
                    };
                    match (r, present.as_ref()) {
                        (Some((kk, v)), Some(e)) => {
                            kk.check("raw_entry");
                            v.check("raw_entry");
                            if kk.kv() != kv || v.payload() != e.p || (v.oid() != 0 && (v.oid() != e.vid || kk.oid() != e.kid)) {
                                wrong = Some(format!("raw_entry({}): got ({},{})", kv, kk.kv(), v.payload()));
                            }
                            format!("Some{}", pair_str(kk, v))
                        }
                        (None, None) => "None".to_string(),
                        (a, b) => {
                            wrong = Some(format!("raw_entry({}): is_some={} expected is_some={}", kv, a.is_some(), b.is_some()));
                            "?".to_string()
                        }
                    }
                });
                let stats = (co.hashes, co.alloc.allocs);
                match co.result {
                    Ok(s) => {
                        acc.out.res = s;
                        if let Some(w) = wrong {
                            acc.wrong(w);
                        }
                        self.post_map(acc, mi, before, stats, Cost::Constant, false, 0, false);
                    }
                    Err(pn) => self.handle_panic(acc, pn, &[]),
                }
            }
            Op::Retain { m, pred, mutate } => self.op_retain(acc, *m as usize, pred, *mutate),
            Op::DrainFilter { m, pred, mutate, consume, drop_panic } => self.op_drain_filter(acc, *m as usize, pred, *mutate, *consume, *drop_panic),
            Op::Drain { m, consume } => self.op_drain(acc, *m as usize, *consume),
            Op::IntoIter { m, consume, new_cap } => self.op_into_iter(acc, *m as usize, *consume, *new_cap),
            Op::Reserve { m, n } => self.op_reserve(acc, *m as usize, *n, false, false),
            Op::TryReserve { m, n, oom } => self.op_reserve(acc, *m as usize, *n, true, *oom),
            Op::ShrinkTo { m, n } => self.op_shrink(acc, *m as usize, Some(*n)),
            Op::ShrinkToFit { m } => self.op_shrink(acc, *m as usize, None),
            Op::WithCapacity { m, n } => {
                let mi = *m as usize;
                let hs = {
                    let h = &self.cfg.map_hashers[mi];
                    SimHasher::new(h.seed, h.mode)
                };
                let n = (*n).min(1 << 16);
                let co = call(|| sut(|| Map::<K, V>::with_capacity_and_hasher(n, hs)));
                match co.result {
                    Ok(newmap) => {
                        if newmap.capacity() < n {
                            acc.anomaly("capacity-contract", format!("with_capacity({}) gave capacity() = {}", n, newmap.capacity()));
                        }
                        acc.out.res = format!("cap>={}", newmap.capacity() >= n);
                        let slot = &mut self.maps[mi];
                        let old = std::mem::replace(&mut slot.m, newmap);
                        let _ = call(|| sut(|| drop(old)));
                        slot.model.clear();
                        slot.countdown = None;
                    }
                    Err(pn) => self.handle_panic(acc, pn, &[]),
                }
            }
            Op::CloneTo { src, dst } => self.op_clone(acc, *src as usize, *dst as usize, false),
            Op::CloneFrom { src, dst } => self.op_clone(acc, *src as usize, *dst as usize, true),
            Op::IterCheck { m, kind, clone_at } => self.op_iter_check(acc, *m as usize, *kind, *clone_at),
            Op::EqCheck { a, b } => self.op_eq_check(acc, *a as usize, *b as usize),
            Op::DebugCheck { m } => {
                let mi = *m as usize;
                let slot = &self.maps[mi];
                let co = call(|| sut(|| format!("{:?}", slot.m)));
                match co.result {
                    Ok(s) => {
                        let mut expect: Vec<String> = slot
                            .model
                            .iter()
                            .map(|(&kv, e)| format!("{:?}: {:?}", DbgKey::<K>(kv, std::marker::PhantomData), DbgVal::<V>(e.p, std::marker::PhantomData)))
                            .collect();
                        expect.sort();
                        let inner = s.trim_start_matches('{').trim_end_matches('}');
                        let mut got: Vec<String> = if inner.is_empty() { vec![] } else { inner.split(", ").map(|x| x.to_string()).collect() };
                        got.sort();
                        if got != expect {
                            acc.wrong(format!("Debug output {:?} does not match contents {:?}", got, expect));
                        }
                        acc.out.res = format!("debug {} entries", got.len());
                    }
                    Err(pn) => self.handle_panic(acc, pn, &[]),
                }
            }
            Op::Probe { m, max } => self.op_probe(acc, *m as usize, *max),
            Op::SerdeMap { .. } | Op::SerdeSet { .. } => crate::c16::dispatch_serde(self, acc, op),
            _ => self.dispatch_set(acc, op),
        }
    }
}

/// Debug formatting of a key/value *as the element type would print it*, without creating an
/// element object.
pub struct DbgKey<K>(pub u32, pub std::marker::PhantomData<K>);
pub struct DbgVal<V>(pub u32, pub std::marker::PhantomData<V>);
impl<K: KeyT> std::fmt::Debug for DbgKey<K> {
    fn fmt(&self, f: &mut std::fmt::Formatter<'_>) -> std::fmt::Result {
        match K::CLASS {
            ElemClass::Zst => write!(f, "()"),
            ElemClass::ZstDrop => write!(f, "ZstDrop"),
            _ => write!(f, "{}", self.0),
        }
    }
}
impl<V: ValT> std::fmt::Debug for DbgVal<V> {
    fn fmt(&self, f: &mut std::fmt::Formatter<'_>) -> std::fmt::Result {
        let name = std::any::type_name::<V>();
        if name.ends_with("PVal") {
            write!(f, "PVal({})", self.0)
        } else if name == "()" {
            write!(f, "()")
        } else {
            write!(f, "{}", self.0)
        }
    }
}

pub trait HashKvOf {
    fn hash_kv_of<K: KeyT>(&self, k: &K) -> u64;
}
impl HashKvOf for SimHasher {
    /// The hash griddle would compute for `k`, computed by the harness (never counted:
    /// this is only called outside SUT windows).
    fn hash_kv_of<K: KeyT>(&self, k: &K) -> u64 {
        self.hash_one(k)
    }
}
