//! Seam S1: the hash state. A seeded `BuildHasher` with selectable quality; every finished
//! hash computation inside a SUT window is counted and is a fuse site.

use crate::ctx::{self, Site};
use crate::rng::splitmix64;
use std::hash::{BuildHasher, Hasher};

#[derive(Clone, Copy, Debug, PartialEq, Eq, serde::Serialize, serde::Deserialize)]
#[repr(u8)]
pub enum HashMode {
    Good = 0,
    /// only 16 distinct hash values
    LowEntropy = 1,
    /// every key hashes to the same value
    AllCollide = 2,
    /// top 7 bits (the control byte tag) constant, index bits good
    SameH2 = 3,
    /// index bits take only 4 values, tag bits good
    Clustered = 4,
}

impl HashMode {
    pub const ALL: [HashMode; 5] = [
        HashMode::Good,
        HashMode::LowEntropy,
        HashMode::AllCollide,
        HashMode::SameH2,
        HashMode::Clustered,
    ];
    pub fn from_u8(x: u8) -> HashMode {
        Self::ALL[(x as usize) % 5]
    }
}

#[derive(Clone, Copy, Debug, PartialEq, Eq)]
pub struct SimHasher {
    pub seed: u64,
    pub mode: HashMode,
}

impl SimHasher {
    pub fn new(seed: u64, mode: HashMode) -> Self {
        SimHasher { seed, mode }
    }
    /// The hash value of key value `kv` under this state, computed without counting.
    pub fn hash_kv(&self, x: u64) -> u64 {
        finish_value(self.seed, self.mode, x)
    }
}

impl Default for SimHasher {
    fn default() -> Self {
        let (seed, mode) = ctx::with(|c| c.default_hasher);
        SimHasher {
            seed,
            mode: HashMode::from_u8(mode),
        }
    }
}

pub struct SimHashState {
    seed: u64,
    mode: HashMode,
    acc: u64,
}

#[inline]
fn finish_value(seed: u64, mode: HashMode, acc: u64) -> u64 {
    let g = splitmix64(acc ^ seed);
    match mode {
        HashMode::Good => g,
        HashMode::LowEntropy => splitmix64((g & 0xF) ^ seed),
        HashMode::AllCollide => splitmix64(seed),
        HashMode::SameH2 => (g >> 7) | (splitmix64(seed) & 0xFE00_0000_0000_0000),
        HashMode::Clustered => (g & 0xFFFF_FFFF_FFFF_0000) | (g & 0x3),
    }
}

impl Hasher for SimHashState {
    #[inline]
    fn finish(&self) -> u64 {
        ctx::callback(Site::Hash);
        ctx::chaos_hash(self.acc, finish_value(self.seed, self.mode, self.acc))
    }
    #[inline]
    fn write(&mut self, bytes: &[u8]) {
        for &b in bytes {
            self.acc = self.acc.rotate_left(8) ^ (b as u64) ^ 0x100;
        }
    }
    #[inline]
    fn write_u32(&mut self, i: u32) {
        self.acc = self.acc.rotate_left(32) ^ (i as u64) ^ 0x1_0000_0000;
    }
    #[inline]
    fn write_u64(&mut self, i: u64) {
        self.acc = splitmix64(self.acc) ^ i;
    }
}

impl BuildHasher for SimHasher {
    type Hasher = SimHashState;
    #[inline]
    fn build_hasher(&self) -> SimHashState {
        SimHashState {
            seed: self.seed,
            mode: self.mode,
            acc: 0,
        }
    }
}
